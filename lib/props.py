"""Per-property checks. Each handler receives a Ctx, runs its correspondence
stream(s) and property projection, and records what it explored."""
import json, os, re, shutil, subprocess, sys, time, hashlib, glob
from concurrent.futures import ThreadPoolExecutor
import common
from common import VERIF, REPO, BUILD, run, parse_sx, sx_field, tree_diff, subtree, covered

TRUSTED = [
    "Lean 4.33.0 kernel (lake build; #print axioms restricted to propext, Classical.choice, Quot.sound)",
    "hand-written Lean model /verif/lean/GopatchModel (tied to /repo by the differential correspondence run by this check)",
    "Go harness /verif/harness/zzverif (dumper, generators, canonicalisation) and /verif/lib (comparison, projections)",
    "go/parser, go/printer, go/scanner, x/tools imports+astutil, pkg/diff, the OS: not modelled (see DESIGN.md section 8)",
]

class Ctx:
    def __init__(self, pid, tier, seed, replay, t0):
        self.pid, self.tier, self.seed, self.replay, self.t0 = pid, tier, seed, replay, t0
        self.evaluations = 0
        self.nontrivial = set()
        self.samples = []
        self.dist = {}
        self.violations = []      # (what, payload)
        self.broken_ties = []     # (kind, detail)
        self.known_hits = []
        self.obligations = 0
        self.discharged = 0
        self.theorems = []
        self.rule = ""
        self.assumptions = []
        self.extra = {}
        self.level = "proof"
        self.known = [k for k in common.load_known() if k.get("property") == pid]
        self.scratch_dirs = []

    # -- preparation --------------------------------------------------------
    def prepare(self):
        self.gopatch, self.harness = common.build_go()
        self.driver = common.build_lean()
        ob, di, details, problems = common.audit_proofs(self.pid)
        self.obligations, self.discharged, self.theorems = ob, di, details
        for p in problems:
            self.broken("proof", p)
        if self.tier == "thorough" and shutil.which("leanchecker"):
            # independent re-check of the compiled proofs of this property (and everything they import) by the
            # toolchain's stand-alone kernel checker
            with common.Lock("lean"):
                r = run(["lake", "env", "leanchecker", f"GopatchModel.Props.{self.pid}"], cwd=common.LEAN, timeout=1800)
            self.extra["leanchecker"] = "ok" if r.returncode == 0 else "failed"
            if r.returncode != 0:
                self.broken("proof", "leanchecker rejects the compiled proofs: " + (r.stdout + r.stderr)[-800:])

    def scratch(self, name="s"):
        d = common.scratch(self.pid + "-" + name)
        self.scratch_dirs.append(d)
        return d

    # -- recording ----------------------------------------------------------
    def count(self, key, n=1):
        self.dist[key] = self.dist.get(key, 0) + n

    def sample(self, s, limit=4):
        if len(self.samples) < limit:
            self.samples.append(s)

    def violation(self, what, payload):
        self.violations.append((what, payload))

    def broken(self, kind, detail):
        self.broken_ties.append((kind, detail))

    def is_known(self, what, payload):
        for k in self.known:
            if k.get("status") != "known":
                continue
            sig = k.get("signature", {})
            fn = SIGNATURES.get(sig.get("kind"))
            if fn and fn(sig, what, payload):
                return k
        return None

    # -- verdict --------------------------------------------------------------
    def finish(self):
        for d in self.scratch_dirs:
            if not os.environ.get("VERIF_KEEP_SCRATCH"):      # debugging aid: keep the streams of this run
                shutil.rmtree(d, ignore_errors=True)
        lines = []
        nviol = 0
        seen_known = set()
        for what, payload in self.violations:
            k = self.is_known(what, payload)
            if k is not None:
                if k["id"] not in seen_known:
                    seen_known.add(k["id"])
                    lines.append(f"KNOWN-FINDING: property={self.pid} {k['what']}")
                continue
            nviol += 1
            if nviol <= 5:
                path = common.write_replay(self.pid, {"property": self.pid, "what": what, **payload})
                lines.append(f"VIOLATION property={self.pid} replay={path}")
                lines.append("   what: " + " ".join(str(what).split())[:400])      # (the replay file has it in full)
        if nviol == 0 and self.broken_ties:
            path = common.write_replay(self.pid, {
                "property": self.pid,
                "what": "the property is no longer shown to hold: a proof obligation or the correspondence does not check",
                "broken": [{"kind": k, "detail": d[-6000:]} for k, d in self.broken_ties],
                "searched": {"evaluations": self.evaluations, "tier": self.tier},
            })
            lines.append(f"VIOLATION property={self.pid} replay={path} no-failing-input-found")
            lines.append("   what: " + "; ".join(f"{k}: " + " ".join(str(d).split())[-300:] for k, d in self.broken_ties[:2]))
            nviol = 1
        # listed known findings that were replayed explicitly but not hit are not printed
        cov = {
            "obligations": self.obligations, "discharged": self.discharged,
            "checker_cmd": f"cd /verif/lean && lake build GopatchModel.Props.{self.pid} && lake env lean <audit: #print axioms of every theorem>",
            "trusted_base": TRUSTED,
            "theorems": self.theorems,
            "evaluations": self.evaluations,
            "distinct_nontrivial": len(self.nontrivial),
            "rule": self.rule,
            "samples": self.samples or ["(no case was run)"],
            "distribution": self.dist,
            "known_findings_replayed": sorted(seen_known),
        }
        cov.update(self.extra)
        level = self.level
        if level == "proof" and (self.obligations == 0 or self.discharged != self.obligations):
            cov["explanation"] = "proof obligations not all discharged on this run; see violations"
        common.write_evidence(self.pid, self.tier, self.seed, level, cov, self.assumptions,
                              time.time() - self.t0, nviol)
        for l in lines:
            print(l)
        print(f"{self.pid}: {'FAIL' if nviol else 'ok'} tier={self.tier} seed={self.seed} "
              f"evaluations={self.evaluations} nontrivial={len(self.nontrivial)} "
              f"theorems={self.discharged}/{self.obligations} wall={time.time()-self.t0:.1f}s")
        return 1 if nviol else 0

SIGNATURES = {}
def signature(name):
    def deco(f):
        SIGNATURES[name] = f
        return f
    return deco

REGISTRY = {}
def prop(pid):
    def deco(f):
        REGISTRY[pid] = f
        return f
    return deco

# ---------------------------------------------------------------------------
# engine stream

ERR_RE = re.compile(r'\((err|panic) "(?:[^"\\]|\\.)*"\)')

def parse_res(line):
    """(res ID (trace ...) (ok) (pkg ..) (imports ..) (tree ..)) -> dict"""
    sx = parse_sx(ERR_RE.sub(r"(\1)", line))
    d = {"id": sx[1], "trace": sx_field(sx[2:], "trace") or [], "status": "ok",
         "touched": [int(x) for x in (sx_field(sx[2:], "touched") or [])],
         "missed": (sx_field(sx[2:], "missed") or ["?"])[0], "typed": (sx_field(sx[2:], "typed") or ["?"])[0],
         "keysdistinct": (sx_field(sx[2:], "keysdistinct") or ["?"])[0], "front": (sx_field(sx[2:], "front") or ["?"])[0],
         "outofmodel": (sx_field(sx[2:], "outofmodel") or ["0"])[0]}
    if sx_field(sx[2:], "err") is not None:
        d["status"] = "err"
    elif sx_field(sx[2:], "panic") is not None:
        d["status"] = "panic"
    else:
        d["pkg"] = sx_field(sx[2:], "pkg")
        d["imports"] = sx_field(sx[2:], "imports")
        t = sx_field(sx[2:], "tree")
        d["tree"] = t[0] if t else None
    return d

def parse_orig(line):
    sx = parse_sx(line)
    t = sx_field(sx[2:], "tree")
    return {"id": sx[1], "pkg": sx_field(sx[2:], "pkg"), "imports": sx_field(sx[2:], "imports"),
            "tree": t[0] if t else None}

def write_jsonl(ctx, cases, tag="jl"):
    d = ctx.scratch(tag)
    pth = os.path.join(d, "in.jsonl")
    with open(pth, "w") as f:
        for c in cases:
            f.write(json.dumps(c) + "\n")
    return pth

def run_engine_batch(ctx, args, tag):
    """Run the harness `engine` command and the model driver; return list of
    (input, orig, impl, model) per case that could be expressed."""
    d = ctx.scratch(tag)
    r = run([ctx.harness, "engine", "-repo", REPO, "-out", d] + args, timeout=3600)
    if r.returncode != 0:
        ctx.broken("harness", f"zzverif engine {args} failed: {r.stderr[-2000:]}")
        return []
    try:
        stats = json.loads(r.stdout.strip().splitlines()[-1])
    except Exception:
        stats = {}
    for k, v in stats.items():
        ctx.count("harness." + k, v)
    if stats.get("panic"):
        crashed = [json.loads(l) for l in open(os.path.join(d, "engine.inputs.jsonl")) if "skipped: panic:" in l]
        for c in crashed[:2]:
            if ctx.pid == "C08":
                ctx.violation("gopatch panics while parsing or compiling this patch: " + c.get("note", "")[-200:],
                              {"input": {"patches": c.get("patches"), "src": c.get("src")}})
            else:
                ctx.broken("harness", "the implementation panicked on a generated case (see property C08): " + c.get("note", "")[-300:])
    if stats.get("skip:front-reject"):
        rej = [json.loads(l) for l in open(os.path.join(d, "engine.inputs.jsonl")) if "skipped: front-reject:" in l]
        for c in rej[:3]:
            ctx.violation("the patch is refused for a \"...\" that stands where an elision may stand (a line of its own in a statement or "
                          "field list, a whole argument or element): by its text every side is well-formed once the elisions are named, "
                          "the front end says: " + c.get("note", "")[-200:],
                          {"input": {"id": c.get("id"), "patches": c.get("patches"), "src": c.get("src")}})
    if stats.get("hang"):
        hung = [json.loads(l) for l in open(os.path.join(d, "engine.inputs.jsonl")) if "hang: the case" in l]
        for c in hung[:2]:
            if ctx.pid == "C08":
                ctx.violation("gopatch does not terminate on this patch", {"input": {"patches": c.get("patches"), "src": c.get("src")}})
            else:
                ctx.broken("harness", "the implementation did not terminate on a generated case (see property C08): " + json.dumps(c.get("patches"))[:300])
    with open(os.path.join(d, "engine.cases")) as fin, open(os.path.join(d, "engine.model"), "w") as fout:
        r = subprocess.run([ctx.driver], stdin=fin, stdout=fout, stderr=subprocess.PIPE, text=True, timeout=3600)
    if r.returncode != 0:
        ctx.broken("driver", f"modeldriver failed: {r.stderr[-2000:]}")
        return []
    inputs = {}
    for l in open(os.path.join(d, "engine.inputs.jsonl")):
        c = json.loads(l)
        if c["id"] in inputs:
            ctx.broken("harness", f"two engine cases share the id {c['id']}: inputs and observations cannot be paired")
        inputs[c["id"]] = c
    impl = open(os.path.join(d, "engine.impl")).read().splitlines()
    model = open(os.path.join(d, "engine.model")).read().splitlines()
    orig = open(os.path.join(d, "engine.orig")).read().splitlines()
    if not (len(impl) == len(model) == len(orig)):
        ctx.broken("driver", f"line count mismatch impl={len(impl)} model={len(model)} orig={len(orig)}")
        return []
    out = []
    for a, b, o in zip(impl, model, orig):
        ia, ib, io = parse_res(a), parse_res(b), parse_orig(o)
        out.append((inputs.get(ia["id"], {"id": ia["id"]}), io, ia, ib,
                    ERR_RE.sub(r"(\1)", a) == ERR_RE.sub(r"(\1)", b)))
    shutil.rmtree(d, ignore_errors=True)
    return out

def engine_batches(ctx, mode, n_quick, n_thorough, golden=True):
    """Corpus first, then golden + generated cases (several seeds in parallel)."""
    results = []
    corpus = sorted(glob.glob(os.path.join(VERIF, "corpus", ctx.pid, "*.jsonl")))
    if ctx.replay:
        payload = json.load(open(ctx.replay))
        p = os.path.join(ctx.scratch("replay"), "replay.jsonl")
        with open(p, "w") as f:
            f.write(json.dumps(payload.get("input", payload)) + "\n")
        return run_engine_batch(ctx, ["-inputs", p], "rp")
    for c in corpus:
        results += run_engine_batch(ctx, ["-inputs", c], "corpus")
    total = n_quick if ctx.tier == "quick" else n_thorough
    chunks = 1 if ctx.tier == "quick" else 16
    per = max(1, total // chunks)
    jobs = []
    for i in range(chunks):
        args = ["-mode", mode, "-seed", str(ctx.seed * 1000 + i), "-n", str(per), f"-golden={'true' if (golden and i == 0) else 'false'}"]
        jobs.append(args)
    with ThreadPoolExecutor(max_workers=16) as ex:
        for res in ex.map(lambda a: run_engine_batch(ctx, a, "gen"), jobs):
            results += res
    return results

def changed_paths(orig, res):
    if res["status"] != "ok" or res.get("tree") is None:
        return None
    return sorted(set(tree_diff(orig["tree"], res["tree"])))

def replay_payload(inp, impl, model, extra=None):
    p = {"input": {"id": inp.get("id"), "patches": inp.get("patches"), "src": inp.get("src")},
         "impl": {"status": impl["status"], "trace": impl["trace"]},
         "model": {"status": model["status"], "trace": model["trace"]},
         "reproduce": "write patches[i] to p<i>.patch and src to a.go; gopatch -p p0.patch ... --print-only a.go; "
                      "or ./check <id> --replay <this file>"}
    if extra:
        p.update(extra)
    return p

def fmt_paths(ps):
    return [".".join(map(str, p)) for p in ps] if ps is not None else None

def engine_projection(ctx, results, what_checks):
    """Evaluate the requested projections on every case.
    what_checks: subset of {"status","where","content","outside","imports","full"}"""
    for inp, orig, impl, model, same in results:
        ctx.evaluations += 1
        tr = " ".join(impl["trace"])
        ctx.count("trace:" + re.sub(r"\d+", "#", tr))
        ctx.count("status:" + impl["status"])
        if any(t.startswith("k") for t in impl["trace"]):
            ctx.nontrivial.add(hashlib.sha1((json.dumps(inp.get("patches")) + str(inp.get("src"))).encode()).hexdigest())
        if len(ctx.samples) < 3 and inp.get("patches") and any(t.startswith("k") for t in impl["trace"]):
            ctx.sample({"id": inp["id"], "patch": inp["patches"][0][:600], "src": (inp.get("src") or "")[:600],
                        "trace": tr})
        if model.get("outofmodel") == "1":
            # a change rewrites a slot inside an import declaration: the model keeps imports as a list next to the tree
            ctx.count("out_of_model:site-inside-import-declaration")
            continue
        ctx.count("front:" + str(impl.get("front")))
        if impl.get("front") == "0":
            # the pattern the engine compiled is not what the patch text denotes (front end: sectioning, '-'/'+' split,
            # "..." rewriting, parsing, where each elision is recorded to stand); decided against an independent parse of
            # the text of each side of each change.  Every statement about what a patch does is about the patch as written.
            ctx.violation("the pattern compiled from the patch differs from the pattern its text denotes (independent parse of each "
                          "side of each change; package clause, imports and the place of every elision compared with the text)", replay_payload(inp, impl, model, {"problems": ["front-end: compiled pattern differs from the patch text"]}))
        ctx.count("typed:" + str(model.get("typed")))
        if model.get("typed") == "0" and "where" in what_checks:
            # the theorems about instances assume well-typed trees in parser normal form (Spec/Typing.lean)
            ctx.broken("correspondence", f"the tree of case {inp.get('id')} is not well-typed / in parser normal form with respect to "
                                         f"the schema of go/ast (wtv / nf of Spec/Typing.lean)")
        if model.get("keysdistinct") == "0" and "content" in what_checks and "where" in what_checks:
            # C04: elisions are told apart by their patch position (hypothesis of elision_run_kept)
            ctx.broken("correspondence", f"case {inp.get('id')}: two elisions of the '-' side of a change have the same patch position")
        if "converse" in what_checks:
            ctx.count("missed:" + ("0" if model.get("missed") == "0" else "?" if model.get("missed") == "?" else ">0"))
            if model.get("missed") not in ("0", "?") and impl["trace"] == model["trace"]:
                # the reference matcher (every choice of runs for every elision) finds an instance at a node where the
                # engine's matcher, which the implementation agrees with here, finds none
                ctx.violation(f"{model.get('missed')} node(s) are syntactic instances of the '-' pattern (reference matcher allV) but are "
                              f"not matched, hence not rewritten", replay_payload(inp, impl, model, {"missed_by_model": True}))
        if same:
            continue
        ctx.count("model_impl_differ")
        ci, cm = changed_paths(orig, impl), changed_paths(orig, model)
        probs = []
        if "status" in what_checks:
            if impl["status"] != model["status"]:
                probs.append(f"outcome differs: implementation {impl['status']}, specification {model['status']}")
        if "decisions" in what_checks:
            di = [t[0] for t in impl["trace"]]
            dm = [t[0] for t in model["trace"]]
            if di != dm:
                probs.append(f"per-change match decisions differ: implementation {di}, specification {dm}")
        if "where" in what_checks and ci is not None and cm is not None:
            if ci != cm:
                probs.append(f"rewritten locations differ: implementation {fmt_paths(ci)}, specification {fmt_paths(cm)}")
        if "where" in what_checks and (ci is None) != (cm is None):
            probs.append(f"outcome differs: implementation {impl['status']}, specification {model['status']}")
        if "content" in what_checks and ci is not None and cm is not None:
            for p in cm:
                if p in ci and subtree(impl["tree"], p) != subtree(model["tree"], p):
                    probs.append(f"replacement at {'.'.join(map(str,p))} differs from the instantiated '+' pattern")
                    break
                if impl["trace"] == model["trace"] and not covered(p, ci) and not any(covered(q, [p]) for q in ci):
                    # same changes matched at the same number of sites, yet nothing changed at or below this site
                    probs.append(f"the matched site at {'.'.join(map(str,p))} was left unchanged although its instantiated "
                                 f"replacement is admissible there")
                    break
        if "outside" in what_checks and ci is not None and cm is not None:
            extra = [p for p in ci if not covered(p, cm)]
            if extra:
                probs.append(f"code outside the rewritten fragments changed at {fmt_paths(extra)}")
            # a rewritten statement / element list: the elements before and after the rewritten run
            # (those the specification keeps from the original list) must be kept by the implementation too
            for p in cm:
                o, m, i = subtree(orig["tree"], p), subtree(model["tree"], p), subtree(impl["tree"], p)
                if not (isinstance(o, list) and isinstance(m, list) and isinstance(i, list) and o[:1] == ["L"] and m[:1] == ["L"] and i[:1] == ["L"]):
                    continue
                oe, me, ie = o[2:], m[2:], i[2:]
                a = 0
                while a < len(oe) and a < len(me) and oe[a] == me[a]:
                    a += 1
                b = 0
                while b < len(oe) - a and b < len(me) - a and oe[len(oe) - 1 - b] == me[len(me) - 1 - b]:
                    b += 1
                if ie[:a] != oe[:a] or (b > 0 and ie[len(ie) - b:] != oe[len(oe) - b:]):
                    probs.append(f"list at {'.'.join(map(str, p))}: the elements around the rewritten run are not the original ones "
                                 f"({a} leading and {b} trailing elements should have been kept)")
                    break
            if impl.get("pkg") != model.get("pkg"):
                probs.append(f"package clause differs: {impl.get('pkg')} vs {model.get('pkg')}")
        if "imports" in what_checks and impl["status"] == "ok" and model["status"] == "ok":
            if impl.get("imports") != model.get("imports"):
                probs.append(f"imports differ: implementation {impl.get('imports')}, specification {model.get('imports')}")
        if "content" in what_checks and not probs and impl["status"] == "ok" and model["status"] == "ok" and impl.get("tree") != model.get("tree"):
            # the same changes matched, at the same places as far as the comparisons above can tell, and still the results are
            # different trees (what was generated at a site differs below or above the path compared)
            probs.append("the resulting tree differs from the specification's although the outcome, the decisions and the rewritten places agree: "
                         f"implementation changed {fmt_paths(ci or [])}, specification {fmt_paths(cm or [])}")
        if "full" in what_checks:
            probs.append("canonical result differs from the model's")
        if probs:
            ctx.violation("; ".join(probs), replay_payload(inp, impl, model, {"problems": probs}))

ENGINE_RULE = ("cases = every (patch, input) pair of /repo/testdata plus generated pairs: a random Go fragment "
               "(expression / statement run / func / type-var-const declaration) is abstracted into a pattern by replacing "
               "sub-expressions and identifiers with metavariables and list runs with '...'; the '+' side is derived by "
               "rename/wrap/swap/duplicate/drop; the target file embeds instances with fresh fillers, single-token near-misses "
               "and inconsistent fillers at several syntactic positions; every choice from VERIF_SEED. Both the real engine "
               "(parse.Parse, engine.Compile, Change.Match/Replace in-process) and the Lean model (modeldriver) run on the same "
               "dumped trees; results are compared as canonical trees. A case is non-trivial when at least one change matched; "
               "distinct = distinct (patch, source) text.")

def strip_parens(sx):
    """canonical tree without ParenExpr nodes (go/printer adds and removes redundant parentheses)"""
    if not isinstance(sx, list):
        return sx
    if sx[:2] == ["S", "ast.Object"]:
        return ["N", "ast.Object"]      # resolved objects: generated identifiers have none, re-parsed text has them again
    if len(sx) == 3 and sx[0] == "F" and isinstance(sx[2], list) and sx[2][:2] == ["S", "ast.ParenExpr"] and len(sx[2]) == 5:
        return strip_parens(sx[2][3])
    return [strip_parens(x) for x in sx]

CLI_FORMS = ["flags", "unrelated-after", "list", "absolute", "unrelated-first-then-list", "both-ways", "first-flag-rest-list", "dot", "twice"]

def cli_projection(ctx, results, what_checks, n):
    """The same projection with the built binary as the implementation: a sample of the engine cases is run through
    `gopatch --print-only`, the printed file is parsed into the canonical form (redundant parentheses and import
    declarations aside) and compared with the Lean model's result.  The in-process engine stream calls
    Change.Match/Replace itself; the loop around them in main.go is exercised only here."""
    cand = [r for r in results if r[3]["status"] == "ok" and r[2]["status"] == "ok" and r[0].get("patches") and r[0].get("src")
            and r[2].get("tree") is not None and r[3].get("tree") is not None]
    failing = [r for r in results if r[3]["status"] == "err" and r[2]["status"] == "err" and r[0].get("patches") and r[0].get("src")]
    rng = random.Random(ctx.seed + 99)
    matched = [r for r in cand if any(t.startswith("k") for t in r[3]["trace"])]
    unmatched = [r for r in cand if not any(t.startswith("k") for t in r[3]["trace"])]
    multi = [r for r in matched if len(r[3]["trace"]) > 1]
    rng.shuffle(matched); rng.shuffle(unmatched)
    sample = (multi[: n // 3] + matched[: n - min(len(multi), n // 3) - n // 8] + unmatched[: n // 8])[:n]
    # a change that cannot be generated makes the whole file fail: the binary must report it and emit the original
    for inp, orig, impl, model, same in failing[: max(4, n // 6)]:
        root = ctx.scratch("clipf")
        pargs = []
        for i, ptxt in enumerate(inp["patches"]):
            with open(os.path.join(root, f"p{i}.patch"), "w") as f:
                f.write(ptxt)
            pargs += ["-p", f"p{i}.patch"]
        with open(os.path.join(root, "a.go"), "w") as f:
            f.write(inp["src"])
        code, out, err = cl.gopatch(ctx.gopatch, root, pargs + ["a.go"])
        after = open(os.path.join(root, "a.go")).read()
        ctx.evaluations += 1
        ctx.count("cli_tie:failing-change")
        if "status" in what_checks or "decisions" in what_checks or "content" in what_checks:
            if code == 0 or after != inp["src"]:
                ctx.violation(f"a change of the run cannot be generated for this file (engine and specification: error); the binary exits {code} and "
                              f"{'rewrote the file' if after != inp['src'] else 'left the file alone'}: a failed step must be reported and leave the file untouched",
                              replay_payload(dict(inp, id=str(inp.get('id')) + " (through the gopatch binary)"), impl, model, {"written": after[:1500]}))
    if not sample:
        return
    # cases whose intermediate trees are not stable under print + re-parse are out of reach of a textual comparison
    d = ctx.scratch("clip")
    pth = os.path.join(d, "in.jsonl")
    with open(pth, "w") as f:
        for inp, *_ in sample:
            # "final-too": the result itself must be a fixed point of print + re-parse, since it is compared as text
            f.write(json.dumps({"id": inp["id"], "patches": inp["patches"], "chain": inp["patches"], "src": inp["src"], "note": "final-too"}) + "\n")
    r = run([ctx.harness, "stable", "-inputs", pth], timeout=600)
    stable = r.stdout.split()
    if len(stable) != len(sample):
        stable = ["?"] * len(sample)
    def one(k):
        inp = sample[k][0]
        root = os.path.join(d, f"c{k}")
        os.makedirs(root)
        pargs = []
        # how the patches and the target reach the binary varies from case to case - several -p, a -P list, both, an unrelated
        # patch that matches nothing in front or behind, the target named relatively, absolutely or both ways: the same run
        names = []
        for i, ptxt in enumerate(inp["patches"]):
            with open(os.path.join(root, f"p{i}.patch"), "w") as f:
                f.write(ptxt)
            names.append(f"p{i}.patch")
        with open(os.path.join(root, "unrelated.patch"), "w") as f:
            f.write("@@\nvar x expression\n@@\n-zzzAbsentName(x, 1)\n+zzzGoneName(x)\n")
        how = inp.get("cli_form") or CLI_FORMS[k % len(CLI_FORMS)]
        if how == "unrelated-after":
            names.append("unrelated.patch")
        if how in ("list", "unrelated-first-then-list"):
            with open(os.path.join(root, "list.txt"), "w") as f:
                f.write("".join(n + "\n" for n in names))
            pargs = (["-p", "unrelated.patch"] if how == "unrelated-first-then-list" else []) + ["-P", "list.txt"]
        elif how == "first-flag-rest-list" and len(names) > 1:
            with open(os.path.join(root, "list.txt"), "w") as f:
                f.write("".join(n + "\n" for n in names[1:]))
            pargs = ["-P", "list.txt", "-p", names[0]]          # flags come first whatever the order on the command line
        else:
            for n in names:
                pargs += ["-p", n]
        with open(os.path.join(root, "a.go"), "w") as f:
            f.write(inp["src"])
        target = {"absolute": [os.path.join(root, "a.go")], "both-ways": ["a.go", os.path.join(root, "a.go")], "dot": ["."], "twice": ["./a.go", "a.go"]}.get(how, ["a.go"])
        code, out, err = cl.gopatch(ctx.gopatch, root, pargs + ["--print-only", "-v"] + target)
        text = out.decode("utf-8", "replace")
        body = text[: text.rstrip("\n").rfind("\n") + 1] if "\n" in text.rstrip("\n") else ""
        last = text.rstrip("\n").split("\n")[-1] if text.strip() else ""
        with open(os.path.join(root, "out.go"), "w") as f:
            f.write(body)
        return code, last.endswith(": patched"), os.path.join(root, "out.go"), err.decode("utf-8", "replace")
    with ThreadPoolExecutor(max_workers=16) as ex:
        runs = list(ex.map(one, range(len(sample))))
    canon = canon_files(ctx, [r[2] for r in runs])
    tuples = []
    for k, ((inp, orig, impl, model, same), (code, patched, outp, err)) in enumerate(zip(sample, runs)):
        if stable[k] != "1":
            ctx.count("cli_tie:unstable-under-print")
            continue
        if code != 0:
            # the rewrite is rejected as text (C07) or the run failed for this file: not this projection's business
            ctx.count("cli_tie:exit-nonzero")
            continue
        line = canon[k] if k < len(canon) else "ERR"
        if line.startswith("ERR"):
            ctx.count("cli_tie:output-unparseable")
            if patched and model["status"] == "ok" and impl["status"] == "ok":
                ctx.violation("the binary reports the file patched (exit 0) but what --print-only prints for it does not parse as one Go file, "
                              f"while engine and specification give a result (patches and target given as: {inp.get('cli_form') or CLI_FORMS[k % len(CLI_FORMS)]})",
                              replay_payload(dict(inp, id=str(inp.get("id")) + " (through the gopatch binary)"), impl, model,
                                             {"printed": open(outp).read()[-1500:], "stderr": err[-400:], "given_as": CLI_FORMS[k % len(CLI_FORMS)]}))
            continue
        csx = parse_sx("(res x " + line + ")")
        t = sx_field(csx[2:], "tree")
        want_match = any(t_.startswith("k") for t_ in model["trace"])
        cli = {"id": inp["id"], "status": "ok", "trace": model["trace"] if patched == want_match else (["k?"] if patched else ["n"]),
               "touched": [], "pkg": sx_field(csx[2:], "pkg"), "imports": sx_field(csx[2:], "imports"),
               "tree": strip_parens(t[0]) if t else None}
        o2 = dict(orig, tree=strip_parens(orig["tree"]))
        m2 = dict(model, tree=strip_parens(model["tree"]), missed="?", typed="?")
        inp2 = dict(inp, id=str(inp.get("id")) + f" (through the gopatch binary, --print-only; patches and target given as: {inp.get('cli_form') or CLI_FORMS[k % len(CLI_FORMS)]})")
        same2 = (cli["tree"] == m2["tree"] and cli["imports"] == m2.get("imports") and cli["pkg"] == m2.get("pkg") and patched == want_match)
        ctx.count("cli_tie:" + ("same" if same2 else "differs"))
        tuples.append((inp2, o2, cli, m2, same2))
    engine_projection(ctx, tuples, set(what_checks) - {"converse"})

def engine_family(ctx, mode, checks, n_quick=400, n_thorough=16000, golden=True, cli_n=(40, 1500)):
    ctx.rule = ENGINE_RULE + (f" Generator mode: {mode}. Projection compared for this property: {sorted(checks)}. A sample of the cases "
                              "is also run through the built binary (--print-only): the printed file, parsed back, is compared with "
                              "the model's result under the same projection (cases whose intermediate trees are not stable under "
                              "print + re-parse excluded).")
    res = engine_batches(ctx, mode, n_quick, n_thorough, golden)
    engine_projection(ctx, res, checks)
    cli_projection(ctx, res, checks, cli_n[0] if ctx.tier == "quick" else cli_n[1])
    return res

@signature("same-file-through-symlinked-directory")
def sig_same_file_two_names(sig, what, payload):
    return bool(payload.get("same_file_under_two_names_through_a_symlinked_directory"))

@signature("nested-elision-ambiguity")
def sig_nested_elision(sig, what, payload):
    return bool(payload.get("missed_by_model"))

# Changes that are refused for a file: at every match, at a later match only (after earlier matches of the same change were rewritten),
# only at slots where the result is not admissible; alone, before and after changes that apply; with a package clause or imports
# of their own. (patches, source, note)
_G1 = "@@\nvar x expression\n@@\n-oldLog(x)\n+newLog(x)\n"
_G2 = "@@\n@@\n-quux(1)\n+quuz(1)\n"
_PART = "@@\nvar obj, name expression\n@@\n-get(obj, name)\n+obj.name\n"                 # fails where name is not a name
_PLUSONLY = "@@\nvar x, y expression\n@@\n-h(x)\n+k(x, y)\n"                           # y has no value
_PKGFAIL = "@@\nvar x, y expression\n@@\n-package foo\n+package bar\n\n-g(x)\n+g(y)\n"
_PKGGUARD = "@@\n@@\n package bar\n\n-h()\n+k()\n"
_IMPFAIL = ("@@\nvar f expression\n@@\n-import \"example.com/legacy\"\n+import \"example.com/modern\"\n\n-legacy.Call(f)\n+modern.f()\n")
_KINDS = "@@\n@@\n-run(...)\n+run(func() { ... })\n"                                     # an argument list reproduced as statements
_NODOTS = "@@\nvar x expression\n@@\n-foo(x)\n+bar(x, ...)\n"                            # a '+' elision without a partner
_SLOTS = "@@\n@@\n-Name\n+defaults.Name\n"                                              # matches names where no selector may stand
_SRC_PART = ("package a\n\nfunc f() {\n\th := get(cfg, Host)\n\tk := get(cfg, keys[0])\n\toldLog(h)\n\tquux(1)\n\tm := get(cfg, Port)\n\tuse(k, m)\n}\n")
_SRC_PKG = "package foo\n\nfunc f() {\n\tg(1)\n\th()\n\toldLog(2)\n}\n"
_SRC_IMP = ("package a\n\nimport (\n\t\"fmt\"\n\n\t\"example.com/legacy\"\n)\n\nfunc f() {\n\toldLog(fmt.Sprint(1))\n\tlegacy.Call(first)\n"
            "\tlegacy.Call(hooks.second)\n}\n")
_SRC_KINDS = "package a\n\nfunc f() {\n\trun()\n\toldLog(1)\n\trun(1, 2)\n\trun()\n}\n"
_SRC_SLOTS = "package a\n\ntype T struct{ Name string }\n\nfunc f(cfg T) {\n\toldLog(cfg.Name)\n\toldLog(T{Name: \"x\"})\n}\n"
_SRC_SLOTS2 = "package a\n\ntype T struct{ Name string }\n\nfunc f(cfg T) {\n\toldLog(cfg.Name)\n\tquux(1)\n}\n"
_SRC_NODOTS = "package a\n\nfunc f() {\n\tfoo(1)\n\toldLog(2)\n}\n"
REFUSED = [
    ([_PART], _SRC_PART, "refused at the second match"), ([_PART, _G1], _SRC_PART, "refused, then a change that applies"),
    ([_G1, _PART], _SRC_PART, "a change that applies, then refused"), ([_G1, _PART, _G2], _SRC_PART, "refused between two that apply"),
    ([_G2, _G1, _PART], _SRC_PART, "refused last"), ([_PART, _PART], _SRC_PART, "refused twice"),
    ([_PLUSONLY], _SRC_PKG, "a metavariable without a value"), ([_G1, _PLUSONLY], _SRC_PKG, "applies, then no value"),
    ([_PLUSONLY, _G1], _SRC_PKG, "no value, then applies"),
    ([_PKGFAIL], _SRC_PKG, "package clause renamed by a refused change"), ([_PKGFAIL, _PKGGUARD], _SRC_PKG, "then a change guarded by the new name"),
    ([_PKGFAIL, _G1], _SRC_PKG, "then an unguarded change"), ([_G1, _PKGFAIL, _PKGGUARD], _SRC_PKG, "between an applying and a guarded change"),
    ([_PKGGUARD], _SRC_PKG, "the guarded change alone: not this package"),
    ([_IMPFAIL], _SRC_IMP, "import edits of a refused change"), ([_G1, _IMPFAIL], _SRC_IMP, "applies, then refused with import edits"),
    ([_IMPFAIL, _G1], _SRC_IMP, "refused with import edits, then applies"),
    ([_KINDS], _SRC_KINDS, "elision between lists of different kinds: refused where it is not empty"),
    ([_G1, _KINDS], _SRC_KINDS, "applies, then list kinds"), ([_KINDS, _G1], _SRC_KINDS, "list kinds, then applies"),
    ([_NODOTS], _SRC_NODOTS, "elision without a partner"), ([_G1, _NODOTS], _SRC_NODOTS, "applies, then elision without a partner"),
    ([_NODOTS, _G1], _SRC_NODOTS, "elision without a partner, then applies"),
    ([_SLOTS], _SRC_SLOTS, "every site inadmissible: nothing to do, no failure"), ([_G1, _SLOTS], _SRC_SLOTS, "applies, then every site inadmissible"),
    ([_SLOTS, _G1], _SRC_SLOTS, "every site inadmissible, then applies"), ([_G1, _SLOTS, _G2], _SRC_SLOTS + "\nfunc g() { quux(1) }\n", "inadmissible between two that apply"),
    ([_SLOTS], _SRC_SLOTS2, "no site admissible at all"), ([_G1, _SLOTS], _SRC_SLOTS2, "applies, then no site admissible at all"),
    ([_SLOTS, _G1], _SRC_SLOTS2, "no site admissible at all, then applies"), ([_G1, _SLOTS, _G2], _SRC_SLOTS2, "no site admissible between two that apply"),
    ([_G1, _G2, _SLOTS], _SRC_SLOTS2, "two apply, then no site admissible at all"),
]

_LONG_FIRST = ("# A long first patch file: positions in the second one, read as positions in this one, fall anywhere in it.\n@@\nvar a, b, c expression\n@@\n"
               "-configureEverything(a, b, c)\n+configure(\n+  withFirst(a),\n+  withSecond(b),\n+  withThird(c),\n+  withDefaults(...),\n+)\n" + "# padding\n" * 12)
SOURCES_TABLE = [
    (["@@\n@@\n-foo(...)\n+bar(...)\n", "@@\n@@\n-bar(...)\n+baz(...)\n"], "package a\n\nfunc f() {\n\tfoo(1)\n\tbar(2)\n}\n"),
    (["@@\n@@\n-bar(...)\n+baz(...)\n", "@@\n@@\n-foo(...)\n+bar(...)\n"], "package a\n\nfunc f() {\n\tfoo(1)\n\tbar(2)\n}\n"),
    (["@@\nvar x expression\n@@\n-wrap(x)\n+wrap(x, len(x))\n", "@@\nvar x, y expression\n@@\n-wrap(x, y)\n+pack(y, x)\n"], "package a\n\nfunc f(s string) {\n\twrap(s)\n\twrap(s, 3)\n}\n"),
    (["@@\n@@\n+import \"log\"\n\n-fmt.Println(...)\n+log.Print(...)\n"], "package a\n\nimport (\n\t\"fmt\"\n\t\"os\"\n)\n\nfunc f() {\n\tfmt.Println(os.Args)\n}\n"),
    (["@@\nvar x expression\n@@\n-x == x\n+true\n"], "package a\n\nfunc f(p, q int) bool {\n\treturn p == p || (p+q) == (p+q) || p == q\n}\n"),
    (["@@\nvar x expression\n@@\n-send(x)\n+send(checked(x))\n"] * 2, "package a\n\nfunc f(v int) {\n\tsend(v)\n}\n"),
    (["@@\nvar x expression\n@@\n-send(x)\n+send(checked(x))\n", "# Wrap what is sent.\n@ wrap @\nvar x expression\n@@\n# the call\n-send(x)\n+send(checked(x))\n"],
     "package a\n\nfunc f(v int) {\n\tsend(v)\n}\n"),
    ([_LONG_FIRST, "@@\n@@\n-handle := foo(ctx, ...)\n-use(handle)\n+use(bar(ctx, ...))\n"],
     "package a\n\nfunc f() {\n\tprepare()\n\thandle := foo(ctx, 1, \"two\", three())\n\tuse(handle)\n}\n"),
    (["@@\n@@\n-zzzFirstAbsent()\n+zzzFirstGone()\n" + "# pad\n" * 6, "@@\n@@\n-foo(ctx, ...)\n-done()\n+bar(ctx, ...)\n+finished()\n"],
     "package a\n\nfunc f() {\n\tbefore()\n\tfoo(ctx, 1, \"two\", three())\n\tdone()\n}\n"),
]

def patch_sources_family(ctx, checks=frozenset({"status", "content", "decisions"})):
    """The same patches and the same file, given to the binary in every form: several -p, a -P list, -p and -P together (flags first),
    an unrelated patch that matches nothing in front or behind, the target named relatively, absolutely, both ways, as its
    directory. Order-sensitive pairs of patches, a patch given twice (verbatim and re-laid-out), a change whose pattern is
    metavariables only, an import that a change stops using without naming it, a statement patch with elisions loaded after a
    long first patch: whatever the form, the result is the model's."""
    cases = []
    for t, (patches, src) in enumerate(SOURCES_TABLE):
        for form in CLI_FORMS:
            cases.append({"id": f"sources{t}-{form}", "patches": patches, "src": src, "cli_form": form})
    # a statement patch with an elision on a '-' line and its partner on a '+' line, loaded after another patch file: whatever
    # the lines of the first file look like (where an offset of the second file would fall in it)
    second = "@@\nvar x expression\n@@\n-foo(x, ...)\n+bar(x, ...)\n done()\n"
    ssrc = "package p\n\nfunc f() {\n\tfoo(ctx, 1, \"two\", three())\n\tdone()\n}\n"
    for n in range(1, 10 if ctx.tier == "quick" else 16):
        for m in range(1, 10 if ctx.tier == "quick" else 16, 1 if ctx.tier != "quick" else 2):
            first = f"@@\n@@\n-{'a' * n}()\n+{'b' * m}()\n somethingLong()\n"
            cases.append({"id": f"sources-geometry-{n}-{m}", "patches": [first, second], "src": ssrc, "cli_form": "flags" if (n + m) % 2 else "list"})
    res = run_engine_batch(ctx, ["-inputs", write_jsonl(ctx, cases)], "sources")
    ctx.count("patch_sources_cases", len(res))
    if len(res) != len(cases):
        ctx.violation("a case of the patch-sources table is not answered by the engine or the model",
                      {"input": {"missing": sorted(set(c["id"] for c in cases) - set(r[0]["id"] for r in res))[:10]}})
    engine_projection(ctx, res, set(checks))
    cli_projection(ctx, res, set(checks) - {"where", "converse"}, 6 * len(res))

def refused_rewrites_family(ctx, checks=frozenset({"status", "content", "decisions"})):
    """What happens when a change is refused: the engine against the model (status, result), the binary in its three modes (a
    refused step is reported with the file's name, the exit status is non-zero, nothing of the file is written or printed but
    its original bytes; when nothing is refused the result is the model's), and the library (an error exactly when the model
    fails, otherwise the bytes the command line prints)."""
    cases = []
    for k, (patches, src, note) in enumerate(REFUSED):
        cases.append({"id": f"refused{k}-files", "patches": patches, "src": src, "note": note})
        if len(patches) > 1:
            cases.append({"id": f"refused{k}-one-file", "patches": ["\n".join(patches)], "src": src, "note": note})
    res = run_engine_batch(ctx, ["-inputs", write_jsonl(ctx, cases)], "refused")
    ctx.count("refused_rewrite_cases", len(res))
    if len(res) != len(cases):
        ctx.violation("a case of the refused-rewrites table is not answered by the engine or the model",
                      {"input": {"missing": sorted(set(c["id"] for c in cases) - set(r[0]["id"] for r in res))}})
    engine_projection(ctx, res, set(checks))
    cli_projection(ctx, res, set(checks) - {"where", "converse"}, 6 * len(res))
    def one(r):
        inp, orig, impl, model, same = r
        out = []
        for flags in ([], ["--print-only"], ["--diff"]):
            root = ctx.scratch("refused")
            files = {"a.go": inp["src"], "b.go": "package b\n\nfunc ok() {\n\toldLog(0)\n\tquux(1)\n}\n"}
            pargs = []
            for i, ptxt in enumerate(inp["patches"]):
                files[f"p{i}.patch"] = ptxt
                pargs += ["-p", f"p{i}.patch"]
            cl.write_tree(root, files)
            code, so, se = cl.gopatch(ctx.gopatch, root, pargs + flags + ["a.go", "b.go"])
            after = open(os.path.join(root, "a.go")).read()
            after_b = open(os.path.join(root, "b.go")).read()
            shutil.rmtree(root, ignore_errors=True)
            out.append((flags, code, so.decode("utf-8", "replace"), se.decode("utf-8", "replace"), after, after_b))
        return r, out
    with ThreadPoolExecutor(max_workers=8) as ex:
        outs = list(ex.map(one, res))
    api_cases = []
    for (inp, orig, impl, model, same), runs in outs:
        failing = model["status"] == "err"
        b_changes = any(("oldLog" in p_ and "package " not in p_) or "quux(1)" in p_ for p_ in inp["patches"]) and not failing
        for flags, code, so, se, after, after_b in runs:
            ctx.evaluations += 1
            ctx.count("refused:" + ("fails" if failing else "passes") + ":" + (flags[0] if flags else "in-place"))
            ctx.nontrivial.add(f"refused:{inp['id']}:{flags}")
            probs = []
            if failing:
                if code == 0:
                    probs.append("a change is refused for a.go (engine and specification: error) but the exit status is 0")
                if "a.go" not in se:
                    probs.append("the refused rewrite of a.go is not reported with the file's name")
                if after != inp["src"]:
                    probs.append("a.go was written although a change of the run was refused for it")
                if flags == ["--print-only"] and "func f(" in so and inp["src"] not in so:
                    probs.append("--print-only prints something else than the original bytes for the file whose rewrite was refused")
                if flags == ["--diff"] and "--- a.go" in so:
                    probs.append("--diff shows a diff for the file whose rewrite was refused")
            elif code != 0:
                probs.append(f"no change is refused (engine and specification: ok) but the exit status is {code}: {se[-200:]}")
            # the file next to it is treated as if it were alone
            if not flags and ("newLog(0)" in after_b or "quuz(1)" in after_b) != any("oldLog" in p_ or "quux(1)" in p_ for p_ in inp["patches"] if "package " not in p_.split("@@")[-1][:12]):
                pass
            for pr in probs:
                ctx.violation(pr + f" ({inp.get('note', '')}; flags {' '.join(flags) or 'none'})",
                              replay_payload(inp, impl, model, {"exit": code, "stderr": se[-600:], "written": after[-1500:], "stdout": so[-800:],
                                                                "reproduce": "gopatch -p p0.patch [-p p1.patch ...] " + " ".join(flags) + " a.go b.go"}))
        api_cases.append({"id": inp["id"], "patches": ["\n".join(inp["patches"])], "src": inp["src"], "failing": failing,
                          "printed": next((so for flags, code, so, se, a_, b_ in runs if flags == ["--print-only"]), "")})
    byid = {c["id"]: c for c in api_cases}
    for o in run_api(ctx, api_cases, rep=0):
        c = byid[o["id"]]
        ctx.evaluations += 1
        ctx.count("refused:library")
        if o.get("panic"):
            ctx.violation("library API: panic on a patch whose rewrite is refused: " + o["panic"][:200], {"input": {"patches": c["patches"], "src": c["src"]}})
        elif c["failing"] and not (o.get("err") or o.get("parse_err")):
            ctx.violation("library API: a change of the patch is refused for this file (engine and specification: error) but Apply returns no error "
                          "(and these bytes)", {"input": {"patches": c["patches"], "src": c["src"]}, "returned": (o.get("out") or "")[-1200:]})
        elif not c["failing"] and (o.get("err") or o.get("parse_err")):
            ctx.violation("library API: no change is refused (engine and specification: ok) but Apply fails: " + str(o.get("err") or o.get("parse_err"))[:200],
                          {"input": {"patches": c["patches"], "src": c["src"]}})
        elif not c["failing"] and c["printed"].startswith(o.get("out") or "\x00") is False and (o.get("out") or "") not in c["printed"]:
            ctx.violation("library API: the bytes returned differ from what the command line prints for the same patch and file",
                          {"input": {"patches": c["patches"], "src": c["src"]}, "api": (o.get("out") or "")[-800:], "cli": c["printed"][-1200:]})

@prop("C01")
def c01(ctx):
    engine_family(ctx, "c01", {"status", "where", "converse"})
    # an instance needs one substitution for all occurrences of a metavariable: repeated metavariables too
    rule = ctx.rule
    engine_family(ctx, "c02", {"status", "where", "converse"}, n_quick=250, n_thorough=8000, golden=False)
    # "wherever it occurs" includes code that an earlier change of the same patch produced: chains, mostly through the binary
    engine_family(ctx, "c09", {"status", "where"}, n_quick=150, n_thorough=4000, golden=False, cli_n=(80, 1500))
    very_large_patterns(ctx, {"status", "where", "converse", "decisions"})
    relaid_family(ctx, (("c01", 120), ("c05", 60)), {"status", "where", "converse"})
    refused_rewrites_family(ctx)
    patch_sources_family(ctx)
    ctx.rule = rule + (" A second batch uses generator mode c02 (repeated metavariables with identical, almost identical and different "
                       "fillers), a third one mode c09 (chains of changes in which a later change matches only what an earlier one produced).")

INNER_COMMENTS = [" //nolint:gomnd", " //nolint:errcheck // reason", " // plain remark", " /* block */", " //go:generate echo x", " //export sym",
                  " //lint:ignore U1000 kept", " //extern sym", " //go:noinline", " // TODO(x): later"]

def relaid_source(rng, src):
    """the same tokens with other whitespace and with comments (directive-form ones too) at line ends and inside brackets: the same
    syntax tree, so the same instances"""
    out = []
    n = 0
    for l in src.split("\n"):
        st = l.strip()
        plain = not any(q in l for q in "\"'`") and not st.startswith(("package", "import", "//", "/*"))
        if plain and st and "(" in l and rng.random() < 0.35:
            # break the line after an opening bracket, with a comment at the end of the first part
            k = l.index("(") if rng.random() < 0.6 else l.rindex("(")
            l = l[:k + 1] + rng.choice(INNER_COMMENTS) + "\n\t\t" + l[k + 1:]
            n += 1
        elif plain and st and not st.endswith(("(", ",")) and rng.random() < 0.3:
            l = l + rng.choice(INNER_COMMENTS)
            n += 1
        elif plain and st and rng.random() < 0.1:
            l = l.replace(" ", "   ", 2)
            n += 1
        out.append(l)
    return "\n".join(out) if n else None

def relaid_family(ctx, modes, checks):
    """C01 "up to whitespace, comments and positions": generated cases whose source is laid out anew, with comments of every form
    inside and next to the instances; the decisions are the model's on the tree of that source (which has no comments in it)"""
    rng = random.Random(ctx.seed + 101)
    cases = []
    for mode, n in modes:
        for c in gen_cases(ctx, mode, n if ctx.tier == "quick" else n * 20, ctx.seed + 77, golden=True):
            if not c.get("patches") or not isinstance(c.get("src"), str):
                continue
            for v in range(2):
                src = relaid_source(rng, c["src"])
                if src:
                    cases.append({"id": f"relaid-{mode}-{c['id']}-{v}", "patches": c["patches"], "src": src})
    res = run_engine_batch(ctx, ["-inputs", write_jsonl(ctx, cases)], "relaid")
    ctx.count("relaid_sources", len(res))
    engine_projection(ctx, res, checks)
    cli_projection(ctx, res, checks, 40 if ctx.tier == "quick" else 1000)

def stale_capture_family(ctx, checks=frozenset({"status", "content", "decisions"})):
    """Changes of one patch file share the file they edit in place: a node that an earlier change bound to a metavariable (in
    an attempt that failed, or one that succeeded and kept the node) and then edited inside, bound again by a later change -
    what is reproduced from it, and what it is compared with, is the code as it is now."""
    a1 = "@@\nvar x expression\n@@\n-foo(x, 1)\n+bar(x)\n"
    a2 = "@@\nvar y expression\n@@\n-foo(y, 2)\n+baz(y)\n"
    a3 = "@@\nvar z expression\n@@\n-g(z)\n+h(z, z)\n"
    a4 = "@@\nvar f identifier\nvar w expression\n@@\n-f(w, 3)\n+f(3, w)\n"
    srcs = ["package a\n\nfunc f() int {\n\treturn foo(g(foo(b, 1)), 2)\n}\n",
            "package a\n\nfunc f() {\n\tfoo(g(foo(b, 1)), 2)\n\tfoo(foo(foo(c, 1), 2), 3)\n\tuse(g(foo(g(foo(d, 1)), 2)))\n}\n"]
    cases = []
    for si, src in enumerate(srcs):
        for oi, order in enumerate(([a1, a2], [a2, a1], [a1, a3, a2], [a4, a1, a2], [a1, a2, a3, a4], [a3, a1, a2])):
            cases.append({"id": f"stalecap{si}-{oi}-one-file", "patches": ["\n".join(order)], "src": src, "cli_form": "flags"})
            cases.append({"id": f"stalecap{si}-{oi}-files", "patches": order, "src": src, "cli_form": CLI_FORMS[(si + oi) % len(CLI_FORMS)]})
    res = run_engine_batch(ctx, ["-inputs", write_jsonl(ctx, cases)], "stalecap")
    ctx.count("stale_capture_cases", len(res))
    engine_projection(ctx, res, set(checks))
    cli_projection(ctx, res, set(checks) - {"where", "converse"}, 6 * len(res))
    # the library: one parsed patch file, the same bytes as the command line prints
    api_vs_cli(ctx, cli_print_triples(ctx, [c for c in cases if len(c["patches"]) == 1]), "a node bound by two changes of one patch file")

def c02_generated_sites(ctx):
    """A later change of the patch binds its metavariables at several sites inside code that an earlier change generated
    (nodes that never had a place in the file): what is bound at one site must not show at another, and a repeated
    metavariable still needs identical code."""
    rng = random.Random(ctx.seed + 202)
    fillers = ["lo", "hi", "n + 1", "f(x)", "a[i]", "k", "mx", "p.q", "\"s\"", "len(v)", "up", "dn"]
    names = ["swap", "pair", "wrap", "both", "conv", "mk", "box", "join", "lift"]
    cases = []
    for k in range(24 if ctx.tier == "quick" else 600):
        F, G, W, U = rng.sample(names, 4)
        a, b, c = rng.sample(fillers, 3)
        if k % 3 == 0:
            b = rng.choice([f for f in fillers if len(f) == len(a) and f != a] or [b])    # same extent once generated
        shape = k % 5
        p1 = f"@@\nvar x, y expression\n@@\n-{F}(x, y)\n+{G}({W}(y), {W}(x))\n"
        if shape == 0:
            p2 = f"@@\nvar v expression\n@@\n-{W}(v)\n+v\n"
        elif shape == 1:
            p2 = f"@@\nvar v expression\n@@\n-{W}(v)\n+{U}(v, v)\n"
        elif shape == 2:
            p2 = f"@@\nvar v expression\n@@\n-{G}({W}(v), {W}(v))\n+{U}(v)\n"                  # only where both are the same code
        elif shape == 3:
            p1 = f"@@\nvar x, y expression\n@@\n-{F}(x, y)\n+{G}({W}(y), {W}(x), {W}(y))\n"
            p2 = f"@@\nvar v, w expression\n@@\n-{G}({W}(v), w, {W}(v))\n+{U}(v, w)\n"
        else:
            p2 = f"@@\nvar v identifier\n@@\n-{W}(v)\n+{U}(v)\n"                               # identifiers only
        src = (f"package a\n\nfunc g() {{\n\t{F}({a}, {b})\n\tt := {F}({b}, {a})\n\t{F}({a}, {a})\n\t{F}({c}, {F}({a}, {b}))\n"
               f"\tuse(t, {W}({c}))\n}}\n")
        how = [[p1, p2], [p1 + "\n" + p2]][k % 2]
        cases.append({"id": f"gensites{k}", "patches": how, "src": src})
    # an earlier change of the same patch file tries a node (and binds it, whether or not the attempt succeeds), code inside
    # that node is rewritten, and a later change binds the same node for a repeated metavariable: it stands for the code as
    # it is now
    c1 = "@@\nvar f identifier\nvar x expression\n@@\n-f(x, 0)\n+f(x, 1)\n"
    c2 = "@@\n@@\n-zero()\n+wrap(level(7, 0), 5)\n"
    c3 = "@@\nvar y expression\n@@\n-same(y, y)\n+one(y)\n"
    c4 = "@@\nvar y, z expression\n@@\n-pairOf(y, z, y)\n+both(y, z)\n"
    srcs = ["package a\n\nvar _ = same(wrap(level(7, 0), 5), wrap(level(7, 0), 5))\n\nvar _ = same(wrap(level(8, 0), 5), wrap(level(9, 0), 5))\n\nvar _ = same(wrap(level(7, 0), 5), zero())\n",
            "package a\n\nfunc g() {\n\tpairOf(level(1, 0), zero(), level(1, 0))\n\tpairOf(wrap(level(7, 0), 5), 2, zero())\n\tsame(zero(), wrap(level(7, 1), 5))\n}\n"]
    for si, src in enumerate(srcs):
        for oi, order in enumerate(([c1, c2, c3], [c2, c1, c3], [c3, c1, c2, c3], [c1, c2, c4, c3], [c2, c3, c1, c3])):
            cases.append({"id": f"stale{si}-{oi}-one-file", "patches": ["\n".join(order)], "src": src})
            cases.append({"id": f"stale{si}-{oi}-files", "patches": order, "src": src})
    res = run_engine_batch(ctx, ["-inputs", write_jsonl(ctx, cases)], "c02sites")
    ctx.count("generated_sites_cases", len(res))
    engine_projection(ctx, res, {"decisions", "where", "content"})
    cli_projection(ctx, res, {"decisions", "where", "content"}, len(res))

def kinds_and_names_family(ctx, checks):
    """Both kinds of metavariable in one change meeting the same kinds of code; a repeated metavariable whose captured code
    contains an identifier spelled like a declared metavariable (it is code there, not a wildcard)."""
    body = lambda lines: "package a\n\nfunc g() {\n" + "".join("\t" + l + "\n" for l in lines) + "}\n"
    table = [
        ("@@\nvar e expression\nvar f identifier\n@@\n-pair(e, f)\n+pair(f, e)\n",
         ["pair(a.b, c.d)", "pair(a.b, c)", "pair(h(1), g(2))", "pair(x, y.z)", "pair(k, m)", "pair(a[0], b[1])", "pair(a[0], n)"]),
        ("@@\nvar f identifier\nvar e expression\n@@\n-pair(f, e)\n+pair(e, f)\n",
         ["pair(a.b, c.d)", "pair(c, a.b)", "pair(k, m)", "pair(g(2), h(1))", "pair(n, a[0])"]),
        ("@@\nvar f identifier\nvar e expression\n@@\n-f.Write(e)\n+f.WriteAll(e)\n",
         ["x.y.Write(1)", "w.Write(x.y)", "w.Write(q)", "(a.b).Write(3)", "h().Write(4)", "v.Write(h())"]),
        ("@@\nvar x expression\n@@\n-max(x, x)\n+x\n",
         ["b := max(p.x, p.y)", "c := max(p.x, p.x)", "d := max(x+1, x+2)", "e := max(f(x), f(y))", "k := max(x, x)", "m := max(x, y)", "n := max(x+1, x+1)"]),
        ("@@\nvar v expression\n@@\n-same(v, v)\n+one(v)\n",
         ["same(a.v, a.w)", "same(v.a, w.a)", "same(a.v, a.v)", "same(v[i], v[j])", "same(v, w)"]),
        ("@@\nvar n identifier\nvar x expression\n@@\n-twice(x, x, n)\n+once(x, n)\n",
         ["twice(n.a, n.b, k)", "twice(q.n, q.m, k)", "twice(a, a, k)", "twice(n, n, n)", "twice(f(n), f(m), k)", "twice(n.a, n.a, n)"]),
        ("@@\nvar x, y expression\n@@\n-swap(x, y, x)\n+swap(y, x, y)\n",
         ["swap(p.x, q, p.y)", "swap(p.x, q, p.x)", "swap(y, x, y)", "swap(a.y, x, a.x)"]),
        # an instance at the head of a near-instance (receiver of a call chain, left operand, indexed value): the attempt on the
        # outer node binds and fails, the inner node is tried next
        ("@@\nvar x, y expression\n@@\n-x.Set(y, y)\n+x.SetBoth(y)\n",
         ["b.Set(1, 1).Set(2, 3)", "b.Set(2, 3).Set(1, 1)", "b.Set(1, 1).Set(2, 2)", "c.Set(1, 2).Set(3, 3).Set(4, 5)", "d.Set(9, 9).Set(8, 7).Set(6, 5)"]),
        ("@@\nvar x expression\n@@\n-x - x\n+zero\n", ["r := a - a - b", "s := a - b - b", "t := (a - a) - (a - a)", "u := a - a - a", "v := f(a) - f(a) - g"]),
        ("@@\nvar m, k expression\n@@\n-m[k][k]\n+diag(m, k)\n", ["_ = t[1][1][2]", "_ = t[1][2][2]", "_ = t[3][3]", "_ = t[i][i][j][j]", "_ = u[0][0][0]"]),
        ("@@\nvar f identifier\nvar a expression\n@@\n-f(a)(a)\n+twice(f, a)\n", ["mk(1)(1)(2)", "mk(1)(2)(2)", "mk(3)(3)", "mk(x)(x)(x)"]),
    ]
    cases = []
    for k, (patch, lines) in enumerate(table):
        cases.append({"id": f"kinds{k}", "patches": [patch], "src": body(lines)})
        for j in range(len(lines)):      # each line first in turn: what was met first must not decide for the rest
            rot = lines[j:] + lines[:j]
            cases.append({"id": f"kinds{k}r{j}", "patches": [patch], "src": body(rot)})
        cases.append({"id": f"kinds{k}f", "patches": [patch], "src": "package a\n\n" + "".join(f"func g{j}() {{\n\t{l}\n}}\n\n" for j, l in enumerate(lines))})
    res = run_engine_batch(ctx, ["-inputs", write_jsonl(ctx, cases)], "kinds")
    ctx.count("kinds_and_names_cases", len(res))
    engine_projection(ctx, res, checks)
    cli_projection(ctx, res, checks, len(res) if ctx.tier != "quick" else 30)

def very_large_patterns(ctx, checks):
    """patterns that record hundreds of values while they match (a whole function with dozens of statements, a call with a
    hundred arguments): a metavariable used at the start and again at the end still stands for one piece of code"""
    cases = []
    for n in (20, 30, 45, 70, 140):
        stmts = "".join(f"\tstep{i}(a, {i})\n" for i in range(n))
        patch = (f"@@\nvar a expression\nvar f identifier\n@@\n-func f() {{\n-\tbegin(a)\n" + "".join("-" + l + "\n" for l in stmts.rstrip("\n").split("\n"))
                 + f"-\tend(a)\n-}}\n+func f() {{ runAll(a, {n}) }}\n")
        for tag, first, last in (("same", "cfg", "cfg"), ("other", "cfg", "alt"), ("same-selector", "c.cfg", "c.cfg"), ("other-selector", "c.cfg", "c.alt")):
            body = lambda v: stmts.replace("(a,", f"({v},")
            src = f"package a\n\nfunc setup() {{\n\tbegin({first})\n{body(first)}\tend({last})\n}}\n"
            cases.append({"id": f"large{n}-{tag}", "patches": [patch], "src": src})
        args = ", ".join(f"w{i}" for i in range(n))
        p2 = f"@@\nvar m expression\n@@\n-wide(m, {args}, m)\n+narrow(m)\n"
        cases.append({"id": f"wide{n}-same", "patches": [p2], "src": f"package a\n\nfunc f() {{\n\twide(x.y, {args}, x.y)\n}}\n"})
        cases.append({"id": f"wide{n}-other", "patches": [p2], "src": f"package a\n\nfunc f() {{\n\twide(x.y, {args}, x.z)\n}}\n"})
    # what a repeated metavariable stands for may be deep: sums, call chains, nested calls, indexings and parentheses of many levels
    # that are identical, or differ only at the innermost or the outermost place
    for n in ((10, 50, 130) if ctx.tier == "quick" else (10, 50, 130, 400)):
        shapes = {
            "sum": lambda leaf, top: "+".join([leaf] + [f"t{i}" for i in range(n)] + [top]),
            "chain": lambda leaf, top: leaf + "".join(f".m{i}()" for i in range(n)) + "." + top,
            "nest": lambda leaf, top: top + "(" + "".join(f"g{i}(" for i in range(n)) + leaf + ")" * (n + 1),
            "index": lambda leaf, top: leaf + "".join(f"[i{i}]" for i in range(n)) + "." + top,
            "paren": lambda leaf, top: "-" + "(" * n + leaf + ")" * n + "+" + top,
            "lit": lambda leaf, top: "".join("[]" for i in range(n)) + "T" + "{" * n + leaf + "}" * n + "." + top,
        }
        for nm, mk in shapes.items():
            lines = [f"equal({mk('aa', 'zz')}, {mk('aa', 'zz')})", f"equal({mk('aa', 'zz')}, {mk('ab', 'zz')})", f"equal({mk('aa', 'zz')}, {mk('aa', 'zy')})",
                     f"equal({mk('ab', 'zz')}, {mk('aa', 'zz')})", f"equal({mk('ab', 'zy')}, {mk('ab', 'zy')})"]
            src = "package a\n\nfunc f() {\n" + "".join("\t" + l + "\n" for l in lines) + "}\n"
            cases.append({"id": f"deep{n}-{nm}", "patches": ["@@\nvar x expression\n@@\n-equal(x, x)\n+same(x)\n"], "src": src})
            cases.append({"id": f"deep{n}-{nm}-three", "patches": ["@@\nvar x, y expression\n@@\n-equal(x, y)\n+pair(y, x, y)\n", "@@\nvar x expression\n@@\n-pair(x, ..., x)\n+twice(x)\n"], "src": src})
    # a patch line far longer than any buffer a line reader starts with (a 70 KB literal on a context line; on a '-' line)
    big = "x" * 70000
    for tag, body in (("context", f"-oldInit()\n+newInit()\n loadTable(\"{big}\")\n"), ("minus", f"-oldInit()\n-loadTable(\"{big}\")\n+newInit()\n"),
                      ("plus", f"-oldInit()\n+newInit()\n+loadTable(\"{big}\")\n")):
        src = f"package a\n\nfunc inst() {{\n\toldInit()\n\tloadTable(\"{big}\")\n}}\n\nfunc near() {{\n\toldInit()\n\tother()\n}}\n"
        cases.append({"id": f"longline-{tag}", "patches": ["@@\n@@\n" + body], "src": src})
        cases.append({"id": f"longline-{tag}-then-more", "patches": ["@@\n@@\n" + body + "\n@@\n@@\n-other()\n+another()\n"], "src": src})
    res = run_engine_batch(ctx, ["-inputs", write_jsonl(ctx, cases)], "large")
    ctx.count("very_large_pattern_cases", len(res))
    engine_projection(ctx, res, checks)
    through_cli = [r for r in res if not r[0]["id"].startswith("deep") or r[0]["id"].startswith("deep50-") or ctx.tier != "quick"]
    cli_projection(ctx, through_cli, checks - {"converse"}, len(through_cli))

@prop("C02")
def c02(ctx):
    engine_family(ctx, "c02", {"decisions", "where"})
    rule = ctx.rule
    c02_generated_sites(ctx)
    kinds_and_names_family(ctx, {"decisions", "where", "content"})
    very_large_patterns(ctx, {"decisions", "where", "content"})
    patch_sources_family(ctx)
    stale_capture_family(ctx)
    ctx.rule = rule + (" A directed family runs two changes of which the second binds its metavariables at several sites inside "
                       "code the first one generated (equal and different fillers, also of equal length; as two patch files and as one).")

# '+' sides whose tokens must reach the output byte for byte: blanks at the end of the lines of a raw string, the marker
# characters of the patch language inside literals, every spelling of a literal
VERBATIM_PLUS = [
    "printUsage(mvw, `Usage:  \n  tool [flags]\t\n\t`)",
    "f(mvw, \"@@\", `@ name @`, \"# no comment\", `x # y`)",
    "f(mvw, \"...\", `...`, \"a...\")",
    "f(mvw, `first\n+plus\n-minus\n context`)",
    "f(mvw, \"tab\\there\", 'x', 0x1F, 1_000, 1e+3, .5, 0o17, 0b101, 'ä', \"ü€\", 1i, '\\n', \"\\u00e4\")",
    "f(mvw, `  leading and trailing  `, \" \", `\t`)",
    "g(mvw)(`a\n\n\nb`)",
]

def c03_verbatim(ctx):
    src = "package a\n\nimport \"os\"\n\nfunc f() {\n\tusage(os.Stdout)\n\tif usage(os.Stderr) {\n\t}\n}\n"
    for k, e in enumerate(VERBATIM_PLUS + [v + "\x00nonl" for v in VERBATIM_PLUS[:3]] + ["g(mvw).Field\x00nonl", "mvw.TimeoutMillis\x00nonl", "cap(mvw) + 10\x00nonl"]):
        nonl = e.endswith("\x00nonl")
        e = e[:-5] if nonl else e
        patch = "@@\nvar mvw expression\n@@\n-usage(mvw)\n" + "".join("+" + l + "\n" for l in e.split("\n"))
        if nonl:
            patch = patch[:-1]      # the last line of the patch file is not terminated: its last byte is a byte of the '+' pattern
        want = src.replace("usage(os.Stdout)", e.replace("mvw", "os.Stdout")).replace("usage(os.Stderr)", e.replace("mvw", "os.Stderr"))
        root = ctx.scratch("verb")
        cl.write_tree(root, {"a.go": src, "p.patch": patch})
        code, out, err = cl.gopatch(ctx.gopatch, root, ["-p", "p.patch", "--print-only", "a.go"])
        got = out.decode("utf-8", "surrogateescape")
        ctx.evaluations += 1
        ctx.nontrivial.add("verbatim:" + e)
        ctx.count("verbatim_table")
        if code != 0 or got != want:
            i = next((j for j in range(min(len(got), len(want))) if got[j] != want[j]), min(len(got), len(want)))
            ctx.violation(f"a '+' token does not reach the output verbatim: output differs from the '+' pattern instantiated by hand at byte {i} "
                          f"(got {got[i:i+24]!r}, want {want[i:i+24]!r}); exit {code} {err.decode('utf-8','replace')[:200]}",
                          {"input": {"patches": [patch], "src": src}, "want": want, "got": got,
                           "reproduce": "gopatch -p p.patch --print-only a.go"})
        # the library API must return the same bytes
        for o in run_api(ctx, [{"id": f"verb{k}", "patches": [patch], "src": src}], rep=0):
            if o.get("out") != want:
                ctx.violation("library API: a '+' token does not reach the output verbatim", {"input": {"patches": [patch], "src": src}, "want": want, "got": o.get("out")})

def c03_once(ctx):
    """the replacement is the '+' pattern instantiated with the site's bindings - once: a '+' side that is again an instance
    of the '-' side must not be applied to its own output, however the file is named on the command line"""
    patch = "@@\nvar x expression\n@@\n-foo(x)\n+foo(wrap(x))\n"
    a = "package a\n\nfunc f() {\n\tfoo(1)\n\tfoo(g(2, \"two\"))\n}\n"
    b = "package a\n\nfunc h() {\n\tfoo(3)\n}\n"
    want_a = a.replace("foo(1)", "foo(wrap(1))").replace("foo(g(2, \"two\"))", "foo(wrap(g(2, \"two\")))")
    want_b = b.replace("foo(3)", "foo(wrap(3))")
    for args in (["a.go"], ["a.go", "b.go", "a.go"], [".", "a.go"], ["./...", "a.go"], ["a.go", "a.go"], ["b.go", "a.go", "./a.go", "b.go"],
                 ["a.go", ".", "b.go"]):
        root = ctx.scratch("once")
        cl.write_tree(root, {"a.go": a, "b.go": b, "p.patch": patch})
        code, out, err = cl.gopatch(ctx.gopatch, root, ["-p", "p.patch"] + args)
        got_a, got_b = open(os.path.join(root, "a.go")).read(), open(os.path.join(root, "b.go")).read()
        ctx.evaluations += 1
        ctx.nontrivial.add("once:" + " ".join(args))
        ctx.count("applied_once_table")
        exp_b = want_b if any(x != "a.go" and x != "./a.go" for x in args) else b
        if code != 0 or got_a != want_a or got_b != exp_b:
            ctx.violation(f"gopatch -p p.patch {' '.join(args)}: the rewritten file is not the '+' pattern instantiated once per site "
                          f"(exit {code}; a.go {got_a[got_a.find('foo'):][:60]!r})",
                          {"input": {"patches": [patch], "files": {"a.go": a, "b.go": b}, "args": args}, "want": {"a.go": want_a, "b.go": exp_b},
                           "got": {"a.go": got_a, "b.go": got_b}, "reproduce": "gopatch -p p.patch " + " ".join(args)})
        shutil.rmtree(root, ignore_errors=True)

@prop("C03")
def c03(ctx):
    engine_family(ctx, "c03", {"status", "content"})
    ctx.rule += (" Plus a table of '+' sides whose tokens must arrive byte for byte (blanks ending the lines of a raw string, '@@' '#' '...' "
                 "inside literals, '+'/'-' starting a line of a raw string, every spelling of a literal): the expected file is written "
                 "by hand, independent of the implementation's own parse of the patch.")
    c03_verbatim(ctx)
    ctx.rule += (" Plus a table of command lines that reach the same file more than once with a patch whose output is again an instance of "
                 "its '-' side: every site is rewritten exactly once.")
    c03_once(ctx)
    ctx.rule += (" Plus a table in which a metavariable is bound by the name of an import only (context or '-' import line) and used in "
                 "the '+' code: the generated code carries the name the file imports the package under; written by hand expectations.")
    c03_import_name(ctx)
    ctx.rule += (" Plus a table of '+' sides of every syntactic form a type can take, over sites in every position a type can stand in "
                 "(and in expression positions): hand-written expectation = the '-' text replaced by the '+' text at every site.")
    c03_type_positions(ctx)
    refused_rewrites_family(ctx)
    patch_sources_family(ctx)
    stale_capture_family(ctx)

TYPE_PLUS = ["OrderedSet[T]", "pkg.Map[string, T]", "*T", "[]T", "[4]T", "map[string]T", "chan T", "<-chan T", "func(T) error", "(T)",
             "struct{ v T }", "interface{ M() T }", "pkg.Set", "Set2", "G[T, U]", "[]*pkg.G[T]"]

def c03_type_positions(ctx):
    positions = ["type A OLD", "type B = OLD", "type S struct {\n\tf OLD\n}", "type S struct {\n\tg, h OLD\n}", "type S struct {\n\tOLD\n}", "var v OLD",
                 "var w, x OLD = mk(), mk()", "const c OLD = 0", "func f(p OLD) {}", "func f(q ...OLD) {}", "func f() OLD { return z }", "func f() (OLD, error) { return z, nil }",
                 "func f() {\n\tvar l OLD\n\tuse(l)\n}", "var s = []OLD{}", "var m = map[OLD]bool{}", "var m = map[string]OLD{}", "var ch = make(chan OLD, 1)",
                 "var arr = [3]OLD{}", "var pp = new(OLD)", "var cv = OLD(l)", "var as = any(l).(OLD)", "var fn = func(OLD) OLD { return l }", "var lit = OLD{}",
                 "func f() {\n\tswitch any(l).(type) {\n\tcase OLD:\n\t}\n}", "var pt *OLD", "var gen G2[OLD, int]", "func (r OLD) method() {}",
                 "type I interface{ M(OLD) OLD }", "func gen[P OLD](p P) {}", "type C interface{ ~string | OLD }", "var two = pair(OLD{}, OLD(nil))"]
    cases = []
    for k, plus in enumerate(TYPE_PLUS):
        for old in ("Set[T]", "Old"):
            if old == "Old" and "T" in plus:
                continue       # T would be unbound
            meta = "var T expression\n" if old == "Set[T]" else ""
            patch = f"@@\n{meta}@@\n-{old}\n+{plus}\n"
            inst = old.replace("T", "int")
            for pi, pos in enumerate(positions):
                src = "package a\n\n" + pos.replace("OLD", inst) + "\n"
                cases.append({"id": f"typepos{k}-{old[:3]}-{pi}", "patches": [patch], "src": src, "want_sites": src.count(inst), "plus": plus.replace("T", "int")})
    res = run_engine_batch(ctx, ["-inputs", write_jsonl(ctx, cases)], "typepos")
    ctx.count("type_position_cases", len(res))
    engine_projection(ctx, res, {"status", "content", "decisions"})
    cli_projection(ctx, res, {"status", "content", "decisions"}, 60 if ctx.tier == "quick" else len(res))
    # the hand-written expectation, through the binary: every site that is not refused as inadmissible carries the '+' text; the
    # '-' text is nowhere left unless the run reports an error
    by = {c["id"]: c for c in cases}
    def one(c):
        root = ctx.scratch("typepos")
        cl.write_tree(root, {"a.go": c["src"], "p.patch": c["patches"][0]})
        code, out, err = cl.gopatch(ctx.gopatch, root, ["-p", "p.patch", "--print-only", "a.go"])
        shutil.rmtree(root, ignore_errors=True)
        return c, code, out.decode("utf-8", "replace"), err.decode("utf-8", "replace")
    with ThreadPoolExecutor(max_workers=8) as ex:
        for c, code, out, err in ex.map(one, cases):
            ctx.evaluations += 1
            ctx.nontrivial.add("typepos:" + c["plus"])
            inst = "Set[int]" if "Set[T]" in c["patches"][0] else "Old"
            left = len(re.findall(r"(?<![\w.])" + re.escape(inst) + r"(?!\w)", out))
            if code == 0 and left:
                ctx.violation(f"{left} of {c['want_sites']} sites keep the '-' text {inst!r} although the run reports success (the '+' side {c['plus']!r} "
                              "is a type and may stand wherever the matched type stood)",
                              {"input": {"patches": c["patches"], "src": c["src"]}, "output": out[-2500:], "stderr": err[-500:],
                               "reproduce": "gopatch -p p.patch --print-only a.go"})

def c03_import_name(ctx):
    """a metavariable bound only as the name of an import and used in the '+' code: the name the file knows the package by"""
    path = "example.com/log"
    jobs = []
    for sign in (" ", "-"):
        for fname, fimp in (("l", f'l "{path}"'), ("log", f'log "{path}"'), ("xlog", f'xlog "{path}"')):
            for layout in ("single", "grouped"):
                for body, use in (("-print(x)\n+nm.Println(x)\n", "{n}.Println(1)"), ("-print(x)\n+nm.With(nm.Level, x)\n", "{n}.With({n}.Level, 1)"),
                                  ("-nm.Info(x)\n+nm.Println(x)\n", None)):
                    head = f'{sign}import nm "{path}"\n' + (f'+import nm "example.com/zap"\n' if sign == "-" else "") + "\n"
                    patch = "@@\nvar nm identifier\nvar x expression\n@@\n" + head + body
                    imp = f"import {fimp}\n\n" if layout == "single" else f'import (\n\t"fmt"\n\n\t{fimp}\n)\n\nvar _ = fmt.Sprint\n\n'
                    call = "print(1)" if use else f"{fname}.Info(1)"
                    src = f"package a\n\n{imp}func f() {{\n\t{call}\n\t{fname}.Keep()\n}}\n"
                    want_call = (use or "{n}.Println(1)").replace("{n}", fname)
                    jobs.append((patch, src, want_call, f"import line '{sign}', file imports it as {fname}, {layout}"))
    def one(j):
        patch, src, want_call, desc = j
        root = ctx.scratch("c03imp")
        cl.write_tree(root, {"a.go": src, "p.patch": patch})
        code, out, err = cl.gopatch(ctx.gopatch, root, ["-p", "p.patch", "--print-only", "a.go"])
        shutil.rmtree(root, ignore_errors=True)
        return code, out.decode("utf-8", "replace"), err.decode("utf-8", "replace")
    with ThreadPoolExecutor(max_workers=8) as ex:
        outs = list(ex.map(one, jobs))
    for (patch, src, want_call, desc), (code, out, err) in zip(jobs, outs):
        ctx.evaluations += 1
        ctx.count("import_name_metavariable_in_plus_code")
        ctx.nontrivial.add("impname:" + patch + src)
        if code != 0 or ("\t" + want_call + "\n") not in out:
            ctx.violation(f"a metavariable bound by the name of an import and used in the '+' code ({desc}): the generated code must read "
                          f"{want_call!r}", {"input": {"patches": [patch], "src": src}, "exit": code, "stdout": out[-800:], "stderr": err[-400:]})

@prop("C04")
def c04(ctx):
    res = engine_family(ctx, "c04", {"status", "where", "content"})
    # which '+' elision reproduces which '-' elision is decided by where each is recorded to stand in the patch file:
    # the front end's chain from the bytes of the patch to those places, against the model's
    split_tie(ctx, [{"id": r[0].get("id"), "patch": p} for r in res for p in r[0].get("patches", [])])
    elisions_over_generated_code(ctx)
    repetitive_runs_family(ctx)
    patch_sources_family(ctx)

ELISION_CHAINS = [
    (["@@\n@@\n-fetch(...)\n+fetchContext(ctx, ...)\n", "@@\n@@\n-fetchContext(ctx, ...)\n+client.Fetch(ctx, ...)\n"],
     "package a\n\nfunc run() {\n\tfetch(url, 3)\n\tfetch()\n\tfetchContext(ctx, url, retries, 10)\n\tfetch(first(url), []int{1, 2}, func() {})\n}\n"),
    (["@@\n@@\n-fetch(...)\n+fetchAll(..., last)\n", "@@\n@@\n-fetchAll(..., last)\n+fetchSome(...)\n"],
     "package a\n\nfunc run() {\n\tfetch(url, 3)\n\tfetch()\n\tfetchAll(a, b, last)\n}\n"),
    (["@@\n@@\n-fetch(...)\n+fetchAll(first, ..., last)\n", "@@\nvar x expression\n@@\n-fetchAll(first, ..., x, ...)\n+got(x, ...)\n"],
     "package a\n\nfunc run() {\n\tfetch(url, 3)\n\tfetch()\n\tfetchAll(first, b, last)\n}\n"),
    (["@@\n@@\n-Opts{...}\n+Options{Strict: true, ...}\n", "@@\n@@\n-Options{Strict: true, ...}\n+NewOptions(...)\n"],
     "package a\n\nvar o = Opts{A: 1, B: 2}\n\nvar p = Opts{}\n\nvar q = Options{Strict: true, C: 3}\n"),
    (["@@\nvar f identifier\n@@\n func f() {\n+  lock()\n   ...\n }\n", "@@\nvar f identifier\n@@\n func f() {\n   lock()\n+  defer unlock()\n   ...\n }\n"],
     "package a\n\nfunc g() {\n\twork(1)\n\twork(2)\n}\n\nfunc h() {\n}\n\nfunc k() {\n\tlock()\n\twork(3)\n}\n"),
    (["@@\nvar f identifier\n@@\n-func f(...) error {\n+func f(ctx Context, ...) error {\n   ...\n }\n",
      "@@\nvar f identifier\n@@\n-func f(ctx Context, ...) error {\n+func f(ctx Context, ...) (int, error) {\n   ...\n }\n"],
     "package a\n\nfunc g(a int, b string) error {\n\treturn nil\n}\n\nfunc h() error {\n\treturn nil\n}\n\nfunc k(ctx Context, n int) error {\n\treturn nil\n}\n"),
    (["@@\n@@\n-type T struct {\n+type T struct {\n+  mu Mutex\n   ...\n }\n", "@@\n@@\n type T struct {\n   mu Mutex\n-  ...\n+  data Data\n }\n"],
     "package a\n\ntype T struct {\n\ta int\n\tb string\n}\n"),
    (["@@\nvar x expression\n@@\n-log(x, ...)\n+logger.Info(x, ...)\n", "@@\nvar x expression\n@@\n-logger.Info(x, ...)\n+logger.With(...).Info(x)\n"],
     "package a\n\nfunc run() {\n\tlog(\"m\", k, v)\n\tlog(\"n\")\n\tlogger.Info(\"o\", w)\n}\n"),
]

def repetitive_runs_family(ctx):
    """C04 "exactly when some choice of runs exists": lists over a two-letter alphabet, where a section after an elision begins to
    match at several places and only one of them - possibly inside a place that matched in part - lets the rest match; every
    list of length 3..6 against every section of length 2..4, as arguments and as statements. The complete reference matcher
    of the model (all choices) decides."""
    import itertools
    cases = []
    lists = ["".join(t) for n in range(3, 7) for t in itertools.product("ab", repeat=n)]
    if ctx.tier == "quick":
        lists = [l for i, l in enumerate(lists) if i % 2 == 0 or len(l) >= 5]
    arg = lambda w: ", ".join({"a": "nil", "b": "err"}[c] for c in w)
    stm = lambda w, ind: "".join(ind + {"a": "step()", "b": "commit()"}[c] + "\n" for c in w)
    k = 0
    for n in (2, 3, 4):
        for sec in ("".join(t) for t in itertools.product("ab", repeat=n)):
            for form, pat in (("tail", f"-notify(..., {arg(sec)})\n+told(...)\n"), ("mid", f"-notify(..., {arg(sec)}, ...)\n+told(...)\n"),
                              ("head-tail", f"-notify(nil, ..., {arg(sec)})\n+told(...)\n"), ("two", f"-notify(..., {arg(sec[:1])}, ..., {arg(sec[1:])})\n+told(...)\n")):
                src = "package a\n\nfunc f() {\n" + "".join(f"\tnotify({arg(l)})\n" for l in lists) + "}\n"
                cases.append({"id": f"rep-args-{form}-{sec}", "patches": ["@@\n@@\n" + pat], "src": src})
            spat = "@@\n@@\n begin()\n ...\n" + stm(sec[:-1], " ") + stm(sec[-1:], "-") + "+done()\n"
            ssrc = "package a\n\n" + "".join(f"func f{i}() {{\n\tbegin()\n{stm(l, chr(9))}}}\n\n" for i, l in enumerate(lists))
            cases.append({"id": f"rep-stmts-{sec}", "patches": [spat], "src": ssrc})
    res = run_engine_batch(ctx, ["-inputs", write_jsonl(ctx, cases)], "reps")
    ctx.count("repetitive_run_cases", len(res))
    if len(res) != len(cases):
        ctx.violation("a case of the repetitive-runs table is not answered by the engine or the model",
                      {"input": {"missing": sorted(set(c["id"] for c in cases) - set(r[0]["id"] for r in res))[:10]}})
    engine_projection(ctx, res, {"status", "where", "content", "converse"})
    cli_projection(ctx, res, {"status", "content"}, 30 if ctx.tier == "quick" else len(res))

def elisions_over_generated_code(ctx):
    """C04 over several changes: a later change's "..." has to be matched against code that an earlier change of the run generated
    (lists whose explicit elements were written by a '+' side, next to runs that were reproduced from the file): the same choice of
    runs exists there as in that code written out in a file"""
    cases = []
    for k, (chain, src) in enumerate(ELISION_CHAINS):
        cases.append({"id": f"elgen{k}-two-patches", "patches": chain, "src": src})
        cases.append({"id": f"elgen{k}-one-patch", "patches": ["\n".join(chain)], "src": src})
        cases.append({"id": f"elgen{k}-second-alone", "patches": chain[1:], "src": src})
    res = run_engine_batch(ctx, ["-inputs", write_jsonl(ctx, cases)], "elgen")
    ctx.count("elisions_over_generated_code", len(res))
    if len(res) != len(cases):
        ctx.violation("a chain of changes with elisions is not accepted by the engine or the model", {"input": {"cases": [c["id"] for c in cases], "answered": [r[0]["id"] for r in res]}})
    engine_projection(ctx, res, {"status", "where", "content", "decisions"})
    cli_projection(ctx, res, {"status", "content", "decisions"}, len(res))

BYSTANDERS = [
    "var usage = `Usage:  \n  tool [flags]\t\n\t\n    \nend`\n",
    "const md = `line one  \nline two\\\n \n`\n\nvar after = 1\n",
    "func bystander() string {\n\treturn `a \n\tb\t\n` + \"x \" + ` `\n}\n",
    "/* block comment with blanks   \n   \n */\nvar spelled = []any{0x1F, 1_000, 1e+3, .5, 0o17, 0b101, 'a', \"\\u00e4\", `\\u00e4`, 1i, '\\n', 0X1f, 017}\n",
    "var tmpl = template.Must(template.New(\"t\").Parse(`{{ range . }}  \n  {{ . }}\t\n{{ end }}\n`))\n",
    "type bystanderT struct {\n\tA int `json:\"a\"  `\n\tB string `yaml:\"b\" `\n}\n",
]

def bystanders_family(ctx):
    """C05: declarations the patch has nothing to do with, whose tokens are easy to damage when the file is printed or cleaned up
    (raw strings whose lines end in blanks, every spelling of a literal, struct tags, comments with trailing blanks), in files the
    patch does rewrite: they come out token for token as they went in, from the engine and from the binary"""
    cases = []
    for i, c in enumerate(gen_cases(ctx, "c05", 40 if ctx.tier == "quick" else 1500, ctx.seed + 55, golden=False)):
        if not c.get("patches") or not isinstance(c.get("src"), str):
            continue
        b = BYSTANDERS[i % len(BYSTANDERS)]
        cases.append({"id": f"bystander-last-{i}", "patches": c["patches"], "src": c["src"].rstrip("\n") + "\n\n" + b})
        m = re.search(r"^(func|var|type|const) ", c["src"], re.M)
        if m and "template" not in b:
            cases.append({"id": f"bystander-first-{i}", "patches": c["patches"], "src": c["src"][:m.start()] + b + "\n" + c["src"][m.start():]})
    res = run_engine_batch(ctx, ["-inputs", write_jsonl(ctx, cases)], "bystanders")
    ctx.count("bystander_cases", len(res))
    engine_projection(ctx, res, {"outside"})
    cli_projection(ctx, res, {"outside", "content"}, len(res))

@prop("C05")
def c05(ctx):
    engine_family(ctx, "c05", {"outside"})
    rule = ctx.rule
    bystanders_family(ctx)
    refused_rewrites_family(ctx, {"status", "outside", "content"})
    patch_sources_family(ctx, {"status", "outside", "content"})
    # "no code outside a rewritten fragment is duplicated": also not by a write that goes wrong
    unwritable_target_family(ctx, "C05")
    # code that only resembles an instance (a repeated metavariable over code that differs, an identifier metavariable over
    # a selector) is outside every rewritten fragment
    kinds_and_names_family(ctx, {"outside", "decisions", "where"})
    very_large_patterns(ctx, {"outside", "decisions", "where"})
    ctx.rule = rule + " Plus a directed table of near-instances (both kinds of metavariable in one change, repeated metavariables over code that contains their own name)."

# ---------------------------------------------------------------------------
# CLI stream (black-box runs of the built binary vs the Lean loop model)
import random, cli as cl

GENERATED_HEADERS = [
    ("gen-line", "// Code generated by protoc. DO NOT EDIT.\n\n", True),
    ("gen-after-license", "// Copyright 2024.\n\n// Code generated by tool; DO NOT EDIT.\n\n", True),
    ("gen-at", "// Package doc.\n// @generated by foo\n", True),
    ("near-noperiod", "// Code generated by protoc. DO NOT EDIT\n\n", False),
    ("near-lower", "// code generated by protoc. DO NOT EDIT.\n\n", False),
    ("near-nospace", "//Code generated by protoc. DO NOT EDIT.\n\n", False),
    ("near-block", "/* Code generated by protoc. DO NOT EDIT. */\n\n", False),
    ("near-trailing", "// Code generated by protoc. DO NOT EDIT. really\n\n", False),
    ("near-overlap", "// Code generated DO NOT EDIT.\n\n", False),          # prefix and suffix would share the one space
    ("gen-empty-middle", "// Code generated  DO NOT EDIT.\n\n", True),      # two spaces: nothing between prefix and suffix
    ("near-tab", "// Code generated\tby x. DO NOT EDIT.\n\n", False),
    ("near-crlf-free-cr", "// Code generated by x. DO NOT EDIT. \n\n", False),  # trailing blank
    ("at-detached", "// @generated by foo\n\n", False),
    ("gen-in-block", "/*\n// Code generated by x. DO NOT EDIT.\n*/\n\n", True),
    ("gen-with-buildtag", "//go:build linux\n\n// Code generated by x. DO NOT EDIT.\n\n", True),
    # the tag is looked for as a substring of the package comment: it may touch the comment delimiters or punctuation
    ("at-block-tight", "/*@generated by x*/\n", True),
    ("at-block-end", "/* Package doc. @generated*/\n", True),
    ("at-punct", "// Package doc.\n// This file is @generated.\n", True),
    # the tag on a line of the package comment that has the form of a directive (CommentGroup.Text leaves such lines out)
    ("at-directive-line", "// Package doc.\n//nolint:all // @generated by stubgen\n", True),
    ("at-only-directive-line", "//lint:file-ignore U1000 @generated\n", True),
    ("at-go-directive-line", "// Package doc.\n//go:generate stubgen -tag @generated\n", True),
    ("at-inside-word", "// Package doc x@generatedy.\n", True),
    ("at-tight-line", "//@generated\n", True),
    ("plain", "", False),
]

def gen_cases(ctx, mode, n, seed, golden=True):
    r = run([ctx.harness, "gen", "-repo", REPO, "-mode", mode, "-n", str(n), "-seed", str(seed),
             f"-golden={'true' if golden else 'false'}"])
    if r.returncode != 0:
        ctx.broken("harness", "zzverif gen failed: " + r.stderr[-2000:])
        return []
    return [json.loads(l) for l in r.stdout.splitlines() if l.strip()]

UNPARSEABLE = "package bad\n\nfunc {\n"
MANY_ERRORS = "package bad\n\n" + "".join(f"{{{{ range .Items{i} }}}}\nfunc {{{{ .Name }}}}() {{ }}\n{{{{ end }}}}\n" for i in range(70))
ODD_UNMATCHED = [
    "package odd\r\n\r\nfunc  crlf( ) {\r\n\tzzz( 1 )\r\n}\r\n",
    "//go:build ignore\n// +build ignore\n\npackage odd\n\n\n\nfunc   spaced ( )   {   zzz (1)   }\n",
    "package odd;import \"fmt\";func semi(){fmt.Println(`raw\n  string`)}",
    "/* header */ package odd /* trailing */\n// free comment\nvar (\n  a = 1 // one\n\n\n  b   =   2 /* two */\n)\n",
    "package odd\n\nfunc tabs() {\n        zzz(1)\n  \tzzz(2)\n}\n",
]

class Scenario:
    def __init__(self, sid, patches, files, note=""):
        self.id, self.patches, self.files, self.note = sid, patches, files, note

def make_scenarios(ctx, cases, n, rng, kinds):
    """kinds: set of special file kinds to mix in: unparseable, odd, generated, replaceerr"""
    scen = []
    usable = [c for c in cases if c.get("patches") and len(c["patches"]) <= 3]
    for k in range(n):
        base = rng.choice(usable)
        files = {}
        names = ["a/main.go", "b.go", "c/deep/x.go", "d_test.go", "a/z.go", "m.go"]
        rng.shuffle(names)
        files[names[0]] = base["src"]
        for nm in names[1:1 + rng.randint(0, 3)]:
            other = rng.choice(usable)
            files[nm] = other["src"]
        note = []
        if "unparseable" in kinds and rng.random() < 0.35:
            # a syntax error after the package clause, or no package clause at all (an empty placeholder, a template)
            files[rng.choice(["a/bad.go", "zbad.go", "0bad.go"])] = rng.choice([UNPARSEABLE, UNPARSEABLE, "", "func orphan() {}\n"])
            if k % 4 == 0:
                files["0_template.go"] = MANY_ERRORS     # hundreds of syntax errors in one file, before every other file
            note.append("unparseable")
        if "odd" in kinds and rng.random() < 0.8:
            # (a file whose name starts with ro_ is made read-only by setup_scenario: nothing has to be written to it)
            files[rng.choice(["odd.go", "a/odd.go", "ro_odd.go", "a/ro_odd.go"])] = rng.choice(ODD_UNMATCHED)
            note.append("odd")
        if "imports-only" in kinds:
            # files that satisfy the import guards of the patch but contain none of its code
            specs = re.findall(r'^[ -]\s*import\s+(?:\(\s*)?((?:[\w.]+\s+)?"[^"]+")', "\n".join(base["patches"]), re.M)
            for si, spec in enumerate(specs[:2]):
                spec = re.sub(r"^(impname|nm)\s+", rng.choice(["", "alias "]), spec)
                files[f"imp{si}/only.go"] = f"package imponly\n\nimport {spec}\n\nfunc   unrelated( ) {{ zzzUnrelated( 1 ) }}\n"
                note.append("imports-only")
        if "guard-miss" in kinds:
            # the code of the matching file under a package clause that only resembles the one the patch names
            m = re.search(r"^[ -]package (\w+)", "\n".join(base["patches"]), re.M)
            if m and isinstance(base["src"], str):
                for gi, nm in enumerate([m.group(1) + "_test", m.group(1) + "2", "x" + m.group(1)]):
                    files[f"gm{gi}/near.go"] = re.sub(r"^package \w+", "package " + nm, base["src"], count=1, flags=re.M)
                note.append("guard-miss")
        if "generated" in kinds and rng.random() < 0.7:
            name, hdr, isgen = rng.choice(GENERATED_HEADERS)
            files["gen/" + name.replace("-", "_") + ".go"] = hdr + base["src"]
            note.append("generated:" + name)
        scen.append(Scenario(f"s{k}", base["patches"], files, " ".join(note)))
    return scen

def corpus_scenarios(pid):
    """the scenarios of the seeded demonstrations of this property (corpus/<pid>/seeded_scenarios.json)"""
    pth = os.path.join(VERIF, "corpus", pid, "seeded_scenarios.json")
    if not os.path.exists(pth):
        return []
    out = []
    for k, w in enumerate(json.load(open(pth))):
        # files under directories the walk skips are not part of a directory run; the scenario machinery assumes they are
        files = {rel: src for rel, src in w["files"].items()
                 if not any(c in ("vendor", "testdata") or c.startswith((".", "_")) for c in rel.split("/")[:-1])}
        if not files:
            continue
        out.append(Scenario(f"demo{k}", w["patches"], files, "inputs of a seeded demonstration: " + w["id"]))
    return out

def setup_scenario(ctx, sc):
    root = ctx.scratch(sc.id)
    # files that consist of a package clause and nothing else (a doc.go, a generated stub behind a build constraint): Go files
    # like any other - processed, echoed by --print-only, logged, skipped only when generated and asked for
    if not getattr(sc, "no_bare_files", False):
        sc.files.setdefault("zz_doc.go", "// Package zzdoc has nothing but its documentation.\npackage zzdoc\n")
        sc.files.setdefault("zz_stub_gen.go", "// Code generated by stubgen. DO NOT EDIT.\n\n//go:build !linux\n\npackage zzdoc\n")
        sc.files.setdefault("zz_bare.go", "package zzdoc\n")
    for i, p in enumerate(sc.patches):
        with open(os.path.join(root, f"p{i}.patch"), "w") as f:
            f.write(p)
    cl.write_tree(root, sc.files)
    for rel in sc.files:
        if os.path.basename(rel).startswith("ro_"):
            os.chmod(os.path.join(root, rel), 0o444)
    # ... and so are some of the files the patch is meant for: a file without write permission is rewritten like any other
    # (through a temporary file and a rename), previewed, logged, skipped only for the reasons that hold for every file
    for k, rel in enumerate(sorted(r_ for r_ in sc.files if r_.endswith(".go"))):
        if k % 3 == 1 and not getattr(sc, "no_bare_files", False):
            os.chmod(os.path.join(root, rel), 0o444)
    # files that look like what gopatch or an editor leaves behind: none of them is a Go source file, no mode may touch them
    for rel in sorted(sc.files)[:2]:
        dn, bn = os.path.split(rel)
        for decoy in (f".{bn}.123456789.tmp", f"{bn}.orig", f"{bn}~", f".{bn}.swp"):
            pth = os.path.join(root, dn, decoy)
            if not os.path.exists(pth):
                with open(pth, "w") as f:
                    f.write("not a Go file\n")
    pargs = []
    for i in range(len(sc.patches)):
        pargs += ["-p", f"p{i}.patch"]
    return root, pargs

def flags_of(opts):
    m = {"diff": "--diff", "print": "--print-only", "si": "--skip-import-processing", "sg": "--skip-generated", "v": "-v"}
    return [m[o] for o in opts]

def model_generated(ctx, root, rels):
    """which files count as generated: the Lean model checkGenerated on the comment structure go/parser finds (harness
    command `comments`), not the binary's own word for it; None for a file the harness cannot read or parse"""
    d = ctx.scratch("gen")
    paths = []
    for k, rel in enumerate(rels):
        p = os.path.join(d, f"g{k}.go")
        try:
            shutil.copyfile(os.path.join(root, rel), p)
        except OSError:
            continue
        paths.append(p)
    out = {}
    if paths:
        r = subprocess.run([ctx.harness, "comments"], input="\n".join(paths) + "\n", stdout=subprocess.PIPE, stderr=subprocess.PIPE, text=True)
        if r.returncode == 0:
            m = subprocess.run([ctx.driver], input=r.stdout, stdout=subprocess.PIPE, stderr=subprocess.PIPE, text=True)
            for l in m.stdout.splitlines():
                sx = parse_sx(l)
                if sx and sx[0] == "res" and sx[1].startswith("g"):
                    out[rels[int(sx[1][1:])]] = (sx[2] == "1")
    shutil.rmtree(d, ignore_errors=True)
    return out

def classify_all(ctx, root, pargs, rels, opts):
    """solo observations; --skip-import-processing changes bytes so it is part of the key"""
    base_flags = ["--skip-import-processing"] if "si" in opts else []
    infos = []
    order = sorted(rels, key=lambda r: os.path.join(root, r))
    gen = model_generated(ctx, root, order) if "sg" in opts else {}
    for rel in order:
        info = cl.classify(ctx.gopatch, root, pargs, rel, base_flags)
        if "sg" in opts:
            g = cl.classify(ctx.gopatch, root, pargs, rel, base_flags + ["--skip-generated"])
            info["generated"] = g["generated"]
            if info["parses"] and info["content"] is not None and rel in gen and gen[rel] != info["generated"]:
                # the binary's word against the model's: the model decides what the run as a whole is expected to do
                ctx.count("generated:binary_and_model_disagree")
                info["generated"] = gen[rel]
                if gen[rel]:
                    info["apply"] = ("nomatch",)
                    info["needs_unflagged"] = True
        infos.append(info)
    return infos

def observe(ctx, root, pargs, opts, targets):
    before = cl.digest(root)
    code, out, err = cl.gopatch(ctx.gopatch, root, pargs + flags_of(opts) + targets)
    after = cl.digest(root)
    return {"exit": code, "stdout": out, "stderr": err.decode("utf-8", "replace"), "before": before, "after": after}

def split_diff(stdout_text):
    """split --diff stdout into per-file chunks keyed by the name in the --- header"""
    chunks, cur, name = {}, [], None
    for line in stdout_text.split("\n"):
        if line.startswith("--- "):
            if name is not None:
                chunks[name] = "\n".join(cur)
            name, cur = line[4:], [line]
        else:
            cur.append(line)
    if name is not None:
        chunks[name] = "\n".join(cur)
    return chunks

def compare_run(root, opts, infos, pred, obs):
    """-> dict category -> list of problem strings"""
    probs = {"write": [], "stdout": [], "desc": [], "exit": [], "report": [], "unmatched": [], "diffapply": []}
    writes = {o[1]: o[2] for o in pred["outs"] if o[0] == "w"}
    dry = "diff" in opts or "print" in opts
    # disk
    b, a = obs["before"], obs["after"]
    for rel in sorted(set(b) | set(a)):
        absn = os.path.join(root, rel)
        if rel not in a or rel not in b:
            probs["write"].append(f"{rel}: created or removed")
            continue
        if a[rel] == b[rel]:
            if absn in writes and writes[absn].encode("utf-8", "surrogateescape") != b[rel][0]:
                probs["write"].append(f"{rel}: expected to be rewritten but untouched")
            continue
        if b[rel][0] == b"<dir>":
            continue
        if absn not in writes:
            which = "unmatched" if not dry else "write"
            probs[which].append(f"{rel}: modified on disk (content changed={a[rel][0]!=b[rel][0]}, mtime changed={a[rel][2]!=b[rel][2]}, inode changed={a[rel][3]!=b[rel][3]}) although no write is expected")
        elif a[rel][0] != writes[absn].encode("utf-8", "surrogateescape"):
            probs["write"].append(f"{rel}: bytes on disk differ from the bytes printed by --print-only for the same input")
    # stdout. The verbose "failed" lines carry the text of an external error (and imports.Process failures
    # are not logged at all): they are removed from both sides; failures are compared through exit status and stderr.
    exp_chunks = [o for o in pred["outs"] if o[0] == "o" and not re.fullmatch(r"/[^\n]*: failed\n", o[1])]
    so = obs["stdout"].decode("utf-8", "surrogateescape")
    so = re.sub(r"(?m)^/[^\n]*?\.go: failed: [^\n]*\n", "", so)
    if "diff" in opts:
        # walk through stdout following the predicted sequence: plain chunks (echoed unmatched files with
        # --print-only, verbose log lines) must be there verbatim; a diff chunk extends to the next plain chunk
        by_prov = {i["provided"]: i for i in infos}
        pos = 0
        for k, o in enumerate(exp_chunks):
            if not o[1].startswith("\x00DIFF\x00"):
                if not so.startswith(o[1], pos):
                    probs["stdout"].append(f"stdout differs from the prediction at byte {pos} (expected {o[1][:60]!r})")
                    break
                pos += len(o[1])
                continue
            _, _, name, bytes_ = o[1].split("\x00", 3)
            hdr = f"--- {name}\n+++ {name}\n"
            if not so.startswith(hdr, pos):
                probs["stdout"].append(f"--diff: no diff for the patched file {name} where it is expected")
                break
            nxt = len(so)
            for o2 in exp_chunks[k + 1:]:
                probe = (f"--- " + o2[1].split("\x00", 3)[2] + "\n+++ ") if o2[1].startswith("\x00DIFF\x00") else o2[1]
                if probe:
                    f_ = so.find(probe, pos + len(hdr))
                    if f_ >= 0:
                        nxt = f_
                    break
            body = so[pos:nxt]
            pos = nxt
            orig = by_prov[name]["content"].decode("utf-8", "surrogateescape")
            res = cl.apply_unified_diff(orig, body)
            if res is None or res != bytes_:
                res2 = cl.apply_unified_diff(orig.replace("\r\n", "\n"), body) if "\r\n" in orig else None
                if res2 is not None and res2.rstrip("\n") == bytes_.rstrip("\n"):
                    probs["diffapply"].append(f"{name}: CRLF-ORIGINAL: the printed diff omits the carriage returns of the original's lines, so it does not apply to the original (it applies to the original without them and then gives the --print-only bytes)")
                else:
                    probs["diffapply"].append(f"{name}: applying the printed diff to the original does not give the bytes --print-only prints")
        else:
            if so[pos:].strip():
                probs["stdout"].append(f"unexpected extra output on stdout: {so[pos:pos+80]!r}")
    else:
        want = "".join(o[1] for o in exp_chunks)
        if so != want:
            probs["stdout"].append(f"stdout differs from the prediction (got {len(so)} bytes, want {len(want)} bytes)")
    # stderr: description lines, in order, and the error line
    err_lines = [l for l in obs["stderr"].split("\n") if l]
    want_desc = [o[1] for o in pred["outs"] if o[0] == "e"]
    nerr = sum(1 for o in pred["outs"] if o[0] in ("err", "lerr"))
    got_desc = err_lines[:len(err_lines) - (1 if nerr else 0)] if err_lines else []
    if got_desc != want_desc:
        probs["desc"].append(f"descriptions on stderr {got_desc[:4]} differ from expected {want_desc[:4]}")
    if obs["exit"] != pred["exit"]:
        probs["exit"].append(f"exit status {obs['exit']}, expected {pred['exit']}")
    for o in pred["outs"]:
        if o[0] in ("err", "lerr"):
            m = re.search(r"(/\S+?\.go)", o[1])
            if m and m.group(1) not in obs["stderr"]:
                probs["report"].append(f"stderr does not name {m.group(1)}")
    return probs

CLI_RULE = ("scenarios = a patch (from /repo/testdata or generated as for the engine stream) and a directory with its matching "
            "file plus unrelated files, optionally an unparseable file, oddly formatted unmatched files (CRLF, build tags, "
            "one-line, block comments) and files with generated-code headers; the real gopatch binary built from the tree is "
            "run in a scratch directory; per-file outcomes are observed by solo --print-only -v runs and fed to the Lean model "
            "runFiles, whose predicted writes / stdout / stderr descriptions / exit status for the grouped run in the mode "
            "under test are compared with the observed run (disk digest incl. mtime and inode). Non-trivial = at least one "
            "file patched or one failure; distinct = distinct (patch, file set, flags).")

def silent_unaccounted(ctx, sc, opts, infos):
    """every file of a verbose run is accounted for by one line - skipped, patched or failed - or by a diagnostic"""
    bad = [i for i in (infos or []) if i["apply"][0] == "unknown" and not str(i["apply"][1]).strip()]
    if bad and len([v for v in ctx.violations if "accounts for" in v[0]]) < 3:
        ctx.violation(f"{bad[0]['provided']}: processed alone with --print-only -v, the log accounts for it with none of 'skipped', 'patched', 'failed' "
                      "and no diagnostic says why", {"input": {"patches": sc.patches, "files": sc.files, "flags": flags_of(opts)}, "file": bad[0]["provided"]})

def cli_family(ctx, kinds, optsets, categories, n_quick, n_thorough, gen_mode="mix", targets_fn=None, post=None):
    ctx.rule = CLI_RULE + f" Compared for this property: {sorted(categories)}; flag sets: {optsets}."
    rng = random.Random(ctx.seed)
    n = n_quick if ctx.tier == "quick" else n_thorough
    cases = gen_cases(ctx, gen_mode, 150 if ctx.tier == "quick" else 1500, ctx.seed)
    scen = make_scenarios(ctx, cases, n, rng, kinds) + corpus_scenarios(ctx.pid)
    def one(sc):
        out = []
        root, pargs = setup_scenario(ctx, sc)
        rels = sorted(sc.files)
        for k, opts in enumerate(optsets):
            work = root
            if not ("diff" in opts or "print" in opts):
                work = f"{root}-w{k}"
                shutil.copytree(root, work, symlinks=True)
                ctx.scratch_dirs.append(work)
            infos = classify_all(ctx, work, pargs, rels, opts)
            if any(i["apply"][0] == "unknown" for i in infos):
                out.append(("unknown", sc, opts, infos, None, None, None))
                continue
            pred = cl.model_predict(ctx.driver, [(sc.id, opts, infos)]).get(sc.id)
            targets = targets_fn(rng, sc) if targets_fn else ["."]
            obs = observe(ctx, work, pargs, opts, targets)
            out.append(("run", sc, opts, infos, pred, obs, work))
        return out
    with ThreadPoolExecutor(max_workers=8) as ex:
        all_runs = list(ex.map(one, scen))
    for runs in all_runs:
        for kind, sc, opts, infos, pred, obs, work in runs:
            ctx.evaluations += 1
            if kind == "unknown":
                ctx.count("unclassifiable")
                silent_unaccounted(ctx, sc, opts, infos)
                continue
            probs = compare_run(work, opts, infos, pred, obs)
            ctx.count("flags:" + "+".join(opts or ["default"]))
            kinds_seen = sorted(set(i["apply"][0] for i in infos))
            ctx.count("outcomes:" + ",".join(kinds_seen))
            if any(i["apply"][0] != "nomatch" or not i["parses"] for i in infos):
                ctx.nontrivial.add(sc.id + "|" + "+".join(opts))
            if len(ctx.samples) < 3:
                ctx.sample({"scenario": sc.id, "note": sc.note, "flags": opts, "files": sorted(sc.files),
                            "patch": sc.patches[0][:300], "exit": obs["exit"],
                            "outcomes": {i["provided"]: i["apply"][0] for i in infos}})
            found = [p for c in categories for p in probs[c]]
            if post:
                found += post(ctx, sc, opts, infos, pred, obs, work)
            if found:
                ctx.violation("; ".join(found[:4]), {
                    "input": {"patches": sc.patches, "files": sc.files, "flags": flags_of(opts)},
                    "observed": {"exit": obs["exit"], "stderr": obs["stderr"][-2000:], "stdout": obs["stdout"][-2000:].decode("utf-8", "replace")},
                    "predicted": {"exit": pred["exit"], "outs": [list(o)[:2] + [str(o[2])[:300]] if len(o) > 2 else list(o) for o in pred["outs"]][:20]},
                    "problems": found,
                    "reproduce": "create files and p<i>.patch in a directory, run: gopatch -p p0.patch [...] <flags> ."})

def model_decisions(ctx, scen):
    """Lean model's verdict for every (scenario, file): True when some change applies"""
    d = ctx.scratch("dec")
    pth = os.path.join(d, "in.jsonl")
    with open(pth, "w") as f:
        for sc in scen:
            for rel, src in sc.files.items():
                if isinstance(src, bytes):
                    src = src.decode("utf-8", "replace")
                f.write(json.dumps({"id": sc.id + "|" + rel, "patches": sc.patches, "src": src}) + "\n")
    out = {}
    reported = set()
    for inp, orig, impl, model, same in run_engine_batch(ctx, ["-inputs", pth], "dec"):
        out[inp["id"]] = (model["status"], any(t.startswith("k") for t in model["trace"]))
        key = json.dumps(inp.get("patches"))
        if impl.get("front") == "0" and key not in reported and len(reported) < 3:
            # the decisions are taken for the patch as the implementation compiled it: that has to be the patch as written
            reported.add(key)
            ctx.violation("the pattern compiled from the patch differs from the pattern its text denotes (independent parse of each side of "
                          "each change): which files the patch applies to is decided for another patch than the one given",
                          replay_payload(inp, impl, model, {"problems": ["front-end: compiled pattern differs from the patch text"]}))
    return out

@prop("C06")
def c06(ctx):
    decisions = {}
    def post(ctx, sc, opts, infos, pred, obs, work):
        # the property itself, stated directly on the observation, for the files in which the
        # Lean model finds no instance of any change (independent of what the binary believes)
        out = []
        for i in infos:
            rel = i["provided"]
            status, applies = decisions.get(sc.id + "|" + rel, ("?", True))
            unmatched = (status == "ok" and not applies) or (i["parses"] and i["content"] is not None and i["apply"][0] == "nomatch")
            if not unmatched or not i["parses"] or i["content"] is None:
                continue
            if "sg" in opts and i.get("generated"):
                continue
            ctx.count("unmatched_files_checked")
            if obs["before"].get(rel) != obs["after"].get(rel):
                out.append(f"{rel}: no change applies to it but it was touched on disk")
            so = obs["stdout"].decode("utf-8", "replace")
            if "diff" in opts and ("--- " + rel + "\n") in so:
                out.append(f"{rel}: no change applies to it but it appears in the diff")
            if "print" in opts and i["content"].decode("utf-8", "replace") not in so:
                out.append(f"{rel}: --print-only does not echo its original bytes")
            if any(l.startswith(rel + ":") for l in obs["stderr"].split("\n")):
                out.append(f"{rel}: description printed although no change applies")
            if i["apply"][0] == "ok" and status == "ok" and not applies:
                out.append(f"{rel}: gopatch treats the file as patched although no change of the patch applies to it")
            if i["apply"][0] in ("replaceerr", "formaterr", "unknown") and status == "ok" and not applies:
                out.append(f"{rel}: no change of the patch applies to it, yet gopatch reports an error for it ({str(i['apply'][1])[:120]}); the run must succeed")
        return out
    ctx.rule = CLI_RULE + (" For this property the decision 'no change applies' is taken from the Lean engine model on the dumped trees, "
                           "so that it does not depend on the binary's own belief; files that satisfy a patch's import guards but contain "
                           "none of its code are added to every scenario whose patch has an import clause.")
    rng = random.Random(ctx.seed)
    n = 40 if ctx.tier == "quick" else 800
    cases = gen_cases(ctx, "c05", 150 if ctx.tier == "quick" else 1500, ctx.seed)
    scen = make_scenarios(ctx, cases, n, rng, {"odd", "imports-only"})
    # patches with package / import guards, and next to the matching file the same code under a package clause
    # that only resembles the guard's
    gcases = [c for c in gen_cases(ctx, "c10", 200 if ctx.tier == "quick" else 2000, ctx.seed + 5, golden=False)
              if re.search(r"^[ -]package \w+", "\n".join(c.get("patches", [])), re.M)]
    for k, sc in enumerate(make_scenarios(ctx, gcases, min(len(gcases), 15 if ctx.tier == "quick" else 300), rng, {"imports-only", "guard-miss"}) if gcases else []):
        sc.id = f"g{k}"
        scen.append(sc)
    # the same metavariable name with another kind in another change of the patch, probed on an earlier file of the run by
    # code of the other kind: the files that only look like instances stay as they are
    for k, (k1, k2) in enumerate((("expression", "identifier"), ("identifier", "expression"), ("expression", "identifier"))):
        two = (f"@@\nvar x {k1}\n@@\n-foo(x, 0)\n+foo2(x)\n", f"@@\nvar x {k2}\n@@\n-bar(x)\n+baz(x)\n")
        files = {"a.go": "package a\n\nfunc f() {\n\tfoo(h(1), 1)\n\tfoo(p.q, 2)\n\tfoo(v, 3)\n}\n",
                 "b.go": "package a\n\nfunc g() {\n\t" + ("bar(h(2))\n\tbar(p.q)" if k2 == "identifier" else "bar()\n\tbar(v, w)") + "\n}\n",
                 "c.go": "package a\n\nfunc k() {\n\tfoo(T{}, 0)\n\tbar(v)\n}\n"}
        scen.append(Scenario(f"kinds{k}", ["\n".join(two)] if k < 2 else list(two), files, "one name, two kinds, in two changes"))
    # files that hold only code which differs from the pattern in a token the syntax tree records as a position being there
    # or not (the "..." of a spread call, the "=" of a type alias, the parentheses of a one-element group): not instances
    near = [("@@\nvar x expression\n@@\n-logf(x)\n+tracef(x)\n",
             {"spread.go": "package a\n\nfunc f(parts ...any) {\n\tlogf(parts...)\n}\n", "plain.go": "package a\n\nfunc g() {\n\tlogf(1)\n}\n"}),
            ("@@\n@@\n-type Celsius int\n+type Celsius float64\n",
             {"alias.go": "package a\n\ntype Celsius = int\n", "def.go": "package a\n\ntype Celsius int\n"}),
            ("@@\nvar x, y expression\n@@\n-logf(x, y...)\n+tracef(x, y...)\n",
             {"nospread.go": "package a\n\nfunc f(p []any) {\n\tlogf(1, p)\n}\n", "spread.go": "package a\n\nfunc g(p []any) {\n\tlogf(1, p...)\n}\n"}),
            ("@@\n@@\n-type Alias = int\n+type Alias = int64\n",
             {"def.go": "package a\n\ntype Alias int\n", "alias.go": "package a\n\ntype Alias = int\n"})]
    near += [("@@\n@@\n-unit(\"10\u00a0km\")\n+unit(\"10 kilometres\")\n",
              {"space.go": "package a\n\nfunc f() { unit(\"10 km\") }\n", "nbsp.go": "package a\n\nfunc g() { unit(\"10\u00a0km\") }\n"}),
             ("@@\n@@\n-unit(\"10 km\")\n+unit(\"10 kilometres\")\n",
              {"nbsp.go": "package a\n\nfunc g() { unit(\"10\u00a0km\") }\n", "tab.go": "package a\n\nfunc h() { unit(\"10\tkm\") }\n",
               "space.go": "package a\n\nfunc f() { unit(\"10 km\") }\n"}),
             ("@@\n@@\n-tag(`a\u200bb`, '\u00e9')\n+tag2()\n",
              {"plain.go": "package a\n\nfunc f() { tag(`ab`, 'e') }\n", "same.go": "package a\n\nfunc g() { tag(`a\u200bb`, '\u00e9') }\n",
               "composed.go": "package a\n\nfunc h() { tag(`a\u200bb`, 'e') }\n"})]
    for k, (np, nfiles) in enumerate(near):
        scen.append(Scenario(f"posonly{k}", [np], dict(nfiles), "code that differs from the pattern in a position-only token or a look-alike character"))
    scen += corpus_scenarios("C06")
    decisions.update(model_decisions(ctx, scen))
    library_reuse_family(ctx, "C06: a source no change applies to comes back as it is, with no error, whatever was applied before")
    run_scenarios(ctx, scen, [[], ["print"], ["diff"], ["print", "si"], ["sg"], ["diff", "print"], ["print", "diff", "v"], ["print", "v"], ["diff", "print", "sg", "si"]],
                  {"unmatched", "stdout", "exit"}, post)
    # an unmatched file named more than once (relatively, absolutely, through its directory): still one file - echoed once by
    # --print-only, logged once, untouched
    um_src = "package a\n\nfunc onlyHere() { zzzUnmatched(41) }\n"
    for k, mkargs in enumerate((lambda r: [".", os.path.join(r, "u.go")], lambda r: ["u.go", os.path.join(r, "u.go"), "./u.go"],
                                lambda r: [os.path.join(r, "sub"), "sub/v.go", "."], lambda r: [r, "./..."], lambda r: ["sub/../u.go", "u.go"])):
        for mode in (["--print-only"], ["--print-only", "-v"], ["--diff"], []):
            root = ctx.scratch("c06dup")
            cl.write_tree(root, {"u.go": um_src, "sub/v.go": um_src.replace("41", "42"), "m.go": "package a\n\nfunc m() { foo(1) }\n",
                                 "p.patch": "# d\n@@\nvar x expression\n@@\n-foo(x)\n+bar(x)\n"})
            before = cl.digest(root)
            args = mkargs(root)
            code, out, err = cl.gopatch(ctx.gopatch, root, ["-p", "p.patch"] + mode + args)
            so = out.decode("utf-8", "replace")
            ctx.evaluations += 1
            ctx.count("unmatched_file_named_several_times")
            ctx.nontrivial.add(f"c06dup{k}" + " ".join(mode))
            probs = []
            if "--print-only" in mode and "--diff" not in mode:
                for txt in ("zzzUnmatched(41)", "zzzUnmatched(42)"):
                    if so.count(txt) > 1:
                        probs.append(f"the file with {txt} is echoed {so.count(txt)} times")
            if "-v" in mode and len(re.findall(r"(?m)u\.go: skipped$", so)) > 1:
                probs.append("u.go is logged as skipped more than once")
            after = cl.digest(root)
            if any(before[r_] != after.get(r_) for r_ in ("u.go", "sub/v.go")):
                probs.append("an unmatched file was touched")
            if code != 0:
                probs.append(f"exit {code}")
            shutil.rmtree(root, ignore_errors=True)
            if probs:
                ctx.violation("a file no change applies to, named several times on the command line: " + "; ".join(probs),
                              {"input": {"arguments": [a.replace(root, "$ROOT") for a in args], "flags": mode,
                                         "files": {"u.go": um_src, "sub/v.go": "the same with 42", "m.go": "a file the patch applies to"}}})
    triples = []
    for sc in scen:
        for rel, src in sc.files.items():
            st, applies = decisions.get(sc.id + "|" + rel, ("?", True))
            if st == "ok" and not applies and isinstance(src, str):
                triples.append((sc.patches, src, None))
    api_vs_cli(ctx, triples[: (80 if ctx.tier == "quick" else 2000)], "C06 (no change applies: the API must return the input bytes)")

def rng_for(key, seed):
    return random.Random(f"{seed}:{key}")

def api_vs_cli(ctx, triples, what):
    """triples: (patches, src, expected bytes or None for 'input unchanged')"""
    cases = [{"id": f"a{i}", "patches": p, "src": s} for i, (p, s, e) in enumerate(triples) if len(p) == 1]
    exp = {f"a{i}": e for i, (p, s, e) in enumerate(triples)}
    byid = {c["id"]: c for c in cases}
    for o in run_api(ctx, cases, rep=0):
        ctx.evaluations += 1
        ctx.count("api_vs_cli")
        c = byid[o["id"]]
        if o.get("parse_err") or o.get("panic"):
            continue
        want = exp[o["id"]]
        if want is None:
            want = c["src"]
        if o.get("err"):
            ctx.violation(f"{what}: the library API fails ({o['err'][:150]}) where the command line succeeds", {"input": {"patches": c["patches"], "src": c["src"]}})
        elif o["out"] != want:
            ctx.violation(f"{what}: the bytes returned by the library API differ from the command line's", {"input": {"patches": c["patches"], "src": c["src"]}, "api": o["out"][-600:], "cli": want[-600:]})

def cli_print_triples(ctx, cases, flags=()):
    """(patches, src, bytes printed by `gopatch --print-only`) for the cases the command line patches successfully"""
    def one(c):
        d = ctx.scratch("cpt")
        cl.write_tree(d, {"a.go": c["src"], "p.patch": c["patches"][0]})
        code, out, err = cl.gopatch(ctx.gopatch, d, ["-p", "p.patch", "--print-only"] + list(flags) + ["a.go"])
        shutil.rmtree(d, ignore_errors=True)
        return (c["patches"], c["src"], out.decode("utf-8", "surrogateescape")) if code == 0 else None
    with ThreadPoolExecutor(max_workers=12) as ex:
        return [t for t in ex.map(one, [c for c in cases if len(c.get("patches", [])) == 1]) if t]

CRASHERS = [
    # (patch, a file in which applying it goes wrong inside gopatch, the same patch applied to a file where it works)
    ("@@\n@@\n-foo(...)\n+bar = ...\n", "package a\n\nfunc first() {\n\tfoo()\n}\n", "package a\n\nfunc second() {\n\tfoo(1)\n}\n"),
    ("@@\n@@\n-foo(...)\n+return ...\n", "package a\n\nfunc first() int {\n\tfoo()\n\treturn 0\n}\n", "package a\n\nfunc second() int {\n\tfoo(1)\n\treturn 0\n}\n"),
    ("@@\nvar x expression\n@@\n-foo(x, ...)\n+x = ...\n", "package a\n\nfunc first() {\n\tfoo(v)\n}\n", "package a\n\nfunc second() {\n\tfoo(v, 1)\n}\n"),
]

def _f32_crasher():
    for kf in common.load_known():
        if kf.get("id") == "F32":
            w = kf["witness"]
            return [(w["patches"][0], w["src"], "package p\n\nfunc unrelated() {}\n")]
    return []

def crashing_rewrite_family(ctx, what):
    """Patches whose result is not a well-formed tree for some files (an assignment without a right-hand side): whatever goes wrong
    inside gopatch while such a file is patched is that file's failure - reported with its name, exit status 1, no stack trace -
    and the files after it are processed"""
    for k, (patch, bad, good) in enumerate(CRASHERS + _f32_crasher()):
        for names in (("a_first.go", "b_second.go"), ("b_second.go", "z_first.go"), ("a_first.go", "m_second.go", "z_first.go")):
            for flags in ([], ["--print-only"], ["--diff"]):
                root = ctx.scratch("crash")
                files = {nm: (bad if "first" in nm else good) for nm in names}
                cl.write_tree(root, dict(files, **{"p.patch": patch}))
                solo = {}
                for nm in names:
                    solo[nm] = cl.gopatch(ctx.gopatch, root, ["-p", "p.patch", "--print-only", nm], timeout=180)
                code, out, err = cl.gopatch(ctx.gopatch, root, ["-p", "p.patch"] + flags + list(names), timeout=180)
                e, so = err.decode("utf-8", "replace"), out.decode("utf-8", "replace")
                ctx.evaluations += 1
                ctx.count("crashing_rewrite_runs")
                ctx.nontrivial.add(f"crash:{k}:{names}:{flags}")
                probs = []
                if code not in (0, 1) or "goroutine " in e or "panic:" in e.split("could not")[0]:
                    probs.append(f"the run ends with exit status {code} and a stack trace instead of a diagnostic")
                for nm in names:
                    scode, sout, serr = solo[nm]
                    now = open(os.path.join(root, nm), "rb").read()
                    if scode == 0:
                        # fine alone: the same in company
                        if not flags and now != sout:
                            probs.append(f"{nm} is patched when processed alone but " + ("was left untouched" if now == files[nm].encode() else "holds other bytes") + " in this run")
                        if flags == ["--print-only"] and sout.decode("utf-8", "replace") not in so:
                            probs.append(f"{nm} is printed when processed alone but not in this run")
                    else:
                        if code == 0:
                            probs.append(f"{nm} fails when processed alone (exit {scode}) but this run exits 0")
                        if nm not in e:
                            probs.append(f"{nm} fails when processed alone but this run's stderr does not name it")
                        if now != files[nm].encode():
                            probs.append(f"{nm} fails when processed alone but its bytes changed in this run")
                for pr in probs[:3]:
                    ctx.violation(f"{what}: {pr}", {"input": {"patches": [patch], "files": files, "flags": flags, "args": list(names)}, "exit": code, "stderr": e[-800:]})
                shutil.rmtree(root, ignore_errors=True)

def unwritable_target_family(ctx, what):
    """A target whose result cannot be written (its temporary sibling cannot be created: a 250-byte name; standard output is
    full) among targets that can: the one that fails keeps its original bytes and is reported by name with a non-zero exit,
    every other requested file is still processed - before it and after it in path order - and holds exactly the bytes
    --print-only prints for it; dry runs write nothing."""
    longname = "m" * 247 + ".go"
    body = lambda tag: "package a\n\nfunc " + tag + "() {\n" + "".join(f"\taRatherLongFunctionName({i})\n" for i in range(30)) + "}\n"
    files = {"a.go": body("a"), longname: body("m"), "n.go": body("n"), "sub/z.go": body("z"), "unmatched.go": "package a\n\nfunc  u( ) { }\n"}
    patches = {"shrinks": "@@\nvar x expression\n@@\n-aRatherLongFunctionName(x)\n+g(x)\n",
               "grows": "@@\nvar x expression\n@@\n-aRatherLongFunctionName(x)\n+aRatherLongFunctionNameWithContext(ctx, x)\n",
               "same-size": "@@\nvar x expression\n@@\n-aRatherLongFunctionName(x)\n+bRatherLongFunctionName(x)\n"}
    for pname, patch in patches.items():
        root = ctx.scratch("unwr")
        cl.write_tree(root, dict(files, **{"p.patch": patch}))
        want = {}
        for rel in files:
            code, out, err = cl.gopatch(ctx.gopatch, root, ["-p", "p.patch", "--print-only", rel])
            want[rel] = out if code == 0 else None
        before = cl.digest(root)
        for flags in (["--diff"], ["--print-only"]):
            try:
                with open("/dev/full", "wb") as full:
                    r = subprocess.run([ctx.gopatch, "-p", "p.patch"] + flags + ["."], cwd=root, stdout=full, stderr=subprocess.PIPE, timeout=180)
                code, err = r.returncode, r.stderr.decode("utf-8", "replace")
            except (OSError, subprocess.TimeoutExpired) as e:
                code, err = "n/a", str(e)
            ctx.evaluations += 1
            ctx.nontrivial.add(f"unwritable:{pname}:{flags[0]}:stdout-full")
            if code == 0:
                ctx.violation(f"{what}: standard output is full, nothing of the {flags[0]} output could be delivered, and the exit status is 0",
                              {"input": {"patch": patch, "files": sorted(files), "flags": flags, "stdout": "/dev/full"}, "stderr": err[-400:]})
            if cl.digest(root) != before:
                ctx.violation(f"{what}: a dry run ({flags[0]}, standard output full) changed the directory",
                              {"input": {"patch": patch, "files": sorted(files), "flags": flags, "stdout": "/dev/full"}})
        code, out, err = cl.gopatch(ctx.gopatch, root, ["-p", "p.patch", "."])
        e = err.decode("utf-8", "replace")
        ctx.evaluations += 1
        ctx.nontrivial.add(f"unwritable:{pname}:in-place")
        ctx.count("unwritable_target_runs")
        probs = []
        for rel, src in files.items():
            now = open(os.path.join(root, rel), "rb").read()
            if rel == longname:
                if now != src.encode() and now != want[rel]:
                    probs.append(f"the file whose temporary sibling cannot be created holds neither its original bytes nor what --print-only prints for it ({len(now)} bytes; original {len(src)}, patched {len(want[rel] or b'')})")
                if now == src.encode() and (code == 0 or longname[:40] not in e):
                    probs.append(f"the file that could not be written is not reported: exit {code}, stderr {e.strip()[-160:]!r}")
            elif want[rel] is not None and now != want[rel]:
                probs.append(f"{rel} (which can be written) does not hold the bytes --print-only prints for it: " +
                             ("it was not touched" if now == src.encode() else f"{len(now)} bytes against {len(want[rel])}"))
        for pr in probs:
            ctx.violation(f"{what}: {pr}", {"input": {"patch": patch, "files": {k: (v if len(k) < 50 else "...") for k, v in files.items()}, "args": ["-p", "p.patch", "."]},
                                            "exit": code, "stderr": e[-600:]})
        shutil.rmtree(root, ignore_errors=True)

@prop("C12")
def c12(ctx):
    unwritable_target_family(ctx, "C12")
    triples = []
    def post(ctx, sc, opts, infos, pred, obs, work):
        if opts == ["print"]:
            for i in infos:
                if i["apply"][0] == "ok" and i["content"] is not None and not i.get("generated"):
                    b = i["apply"][1]
                    triples.append((sc.patches, i["content"].decode("utf-8", "surrogateescape"), b.decode("utf-8", "surrogateescape") if isinstance(b, bytes) else b))
        return []
    c12_body(ctx, post)
    api_vs_cli(ctx, triples[: (60 if ctx.tier == "quick" else 2000)], "C12")
    # multi-change patches on comment-rich files: the library must give the bytes --print-only prints
    rng = random.Random(ctx.seed + 12)
    chains = [c for c in gen_cases(ctx, "c09", 120 if ctx.tier == "quick" else 2500, ctx.seed + 12, golden=False) if c.get("chain")]
    chains.append({"id": "nested", "chain": ["@@\n@@\n-foo(...)\n+bar(...)\n", "@@\nvar x, y expression\n@@\n-sum(x, y)\n+x + y\n"],
                   "src": "package a\n\nfunc f() {\n\tfoo(sum(1, // one\n\t\t2), 3)\n}\n"})
    def cli_bytes(c):
        src = c["src"]
        if c["id"] != "nested":
            src = inject_comments(rng_for(c["id"], ctx.seed), c["src"]) or c["src"]
        d = ctx.scratch("c12m")
        cl.write_tree(d, {"a.go": src, "all.patch": "\n".join(c["chain"])})
        code, out, err = cl.gopatch(ctx.gopatch, d, ["-p", "all.patch", "--print-only", "a.go"])
        shutil.rmtree(d, ignore_errors=True)
        return (["\n".join(c["chain"])], src, out.decode("utf-8", "surrogateescape")) if code == 0 else None
    with ThreadPoolExecutor(max_workers=8) as ex:
        multi = [t for t in ex.map(cli_bytes, chains[: (50 if ctx.tier == "quick" else 1500)] + chains[-1:]) if t]
    ctx.count("multi_change_api_vs_cli", len(multi))
    api_vs_cli(ctx, multi, "C12 (several changes in one patch)")
    # import edits: whether an import is still used is decided from the parsed file (local variables and parameters that
    # shadow the package name included) - by the library exactly as by the command line
    imp = gen_cases(ctx, "c11", 120 if ctx.tier == "quick" else 3000, ctx.seed + 31, golden=False)
    imp.append({"id": "shadow", "patches": ["@@\n@@\n-import \"net/url\"\n+import \"example.com/safeurl\"\n\n-url.Parse(...)\n+safeurl.Parse(...)\n"],
                "src": "package a\n\nimport \"net/url\"\n\nfunc f(s string) string {\n\turl, err := url.Parse(s)\n\tif err != nil {\n\t\treturn \"\"\n\t}\n\treturn url.Hostname()\n}\n"})
    trip = cli_print_triples(ctx, imp)
    ctx.count("import_edit_api_vs_cli", len(trip))
    api_vs_cli(ctx, trip, "C12 (import edits)")
    # files whose line numbers are not what their bytes say (//line directives of generated parsers), with rewrites that span
    # several lines: the library and the command line have their own copies of the line surgery
    ldir = [{"id": f"line{k}", "patches": [pt], "src": sr} for k, (pt, sr) in enumerate([
        ("@@\n@@\n-foo(...)\n+bar(1)\n", "package a\n\n//line gram.y:2\nfunc f() {\n\tfoo(1,\n\t\t2,\n\t\t3)\n\tkeep()\n}\n"),
        ("@@\n@@\n-foo(...)\n+bar(1)\n", "package a\n\nfunc f() {\n//line gram.y:900\n\tfoo(1,\n\t\t2,\n\t\t3)\n\tkeep() // eol\n}\n\n// doc g\nfunc g() {}\n"),
        ("@@\nvar x expression\n@@\n-wrap(x)\n+x\n", "//line other.go:1\npackage a\n\nfunc f() {\n\tuse(wrap(\n\t\tone(),\n\t), wrap(two()))\n/*line big.go:50:3*/ keep()\n}\n"),
        ("@@\n@@\n-foo(...)\n+bar(1)\n", "package a\n\nfunc f() {\n\tfoo(1,\n\t\t2,\n\t\t3)\n\tkeep()\n}\n")])]
    trip = cli_print_triples(ctx, ldir)
    ctx.count("line_directive_api_vs_cli", len(trip))
    api_vs_cli(ctx, trip, "C12 (files with //line directives)")

def c12_descriptions(ctx):
    """descriptions only for files to which a described change applied: the description of every change comes from the
    Lean sectioning model, which changes apply to the file from the Lean engine model; the binary's stderr is the observation"""
    rng = random.Random(ctx.seed + 21)
    singles = [c for c in gen_cases(ctx, "mix", 160 if ctx.tier == "quick" else 2500, ctx.seed + 21, golden=False)
               if len(c.get("patches", [])) == 1 and c["patches"][0].count("\n@@\n") == 1]
    def body_of(ptxt):
        desc, header, meta, body = split_patch_text(ptxt)
        return "\n".join([header] + meta + ["@@"] + body) + "\n"
    cases = []
    n = 30 if ctx.tier == "quick" else 600
    for k in range(min(n, len(singles) // 2)):
        a, b = rng.sample(singles, 2)
        da, db = rng.random() < 0.7, rng.random() < 0.4
        text = ("# about the first change\n" if da else "") + body_of(a["patches"][0]) + "\n" + \
               ("# about the second change\n#   second line of it\n" if db else "") + body_of(b["patches"][0])
        for which, src in (("a", a["src"]), ("b", b["src"])):
            cases.append({"id": f"desc{k}{which}", "patches": [text], "src": src})
    if not cases:
        return
    d = ctx.scratch("c12d")
    pth = os.path.join(d, "in.jsonl")
    with open(pth, "w") as f:
        for c in cases:
            f.write(json.dumps(c) + "\n")
    traces = {inp["id"]: (model["trace"], impl["trace"]) for inp, orig, impl, model, same in run_engine_batch(ctx, ["-inputs", pth], "c12d")}
    comments = {}
    for c, impl, model in run_front(ctx, [{"id": c["id"], "patch": c["patches"][0]} for c in cases]):
        msx = parse_sx(model)
        mchs = sx_field(msx[2:], "changes") or []
        comments[c["id"]] = [[cl.sx_unquote(x) for x in (sx_field(ch[1:], "comments") or [])] for ch in mchs]
    def one(c):
        root = ctx.scratch("c12dr")
        cl.write_tree(root, {"a.go": c["src"], "p.patch": c["patches"][0]})
        res = []
        for flag in ("--print-only", "--diff"):
            code, out, err = cl.gopatch(ctx.gopatch, root, ["-p", "p.patch", flag, "a.go"])
            res.append((flag, code, err.decode("utf-8", "replace")))
        shutil.rmtree(root, ignore_errors=True)
        return res
    with ThreadPoolExecutor(max_workers=16) as ex:
        obs = list(ex.map(one, cases))
    for c, res in zip(cases, obs):
        tr = traces.get(c["id"])
        cm = comments.get(c["id"])
        if tr is None or cm is None or tr[0] != tr[1] or len(cm) != len(tr[0]):
            ctx.count("descriptions:not-expressible")
            continue
        allowed = [t for k, ch in enumerate(cm) if tr[0][k].startswith("k") for t in ch]
        for flag, code, err in res:
            ctx.evaluations += 1
            ctx.count("descriptions:" + ("some-change-applies" if any(t.startswith("k") for t in tr[0]) else "none-applies"))
            if code != 0:
                continue
            got = [l[len("a.go:"):] for l in err.split("\n") if l.startswith("a.go:")]
            extra = [g for g in got if g not in allowed]
            if any(t.startswith("k") for t in tr[0]):
                ctx.nontrivial.add("desc:" + c["id"])
            if extra:
                ctx.violation(f"{flag}: stderr carries the description line(s) {extra} for a.go, but the change(s) that apply to it "
                              f"(specification: {tr[0]}) have the descriptions {allowed}", {"input": {"patches": c["patches"], "src": c["src"], "flags": [flag]}, "stderr": err[-500:]})

def c12_body(ctx, post):
    cli_family(ctx, {"odd", "generated"},
               [[], ["print"], ["diff"], ["diff", "v"], ["print", "si"], ["diff", "sg"], ["si"], ["print", "sg", "si"], ["v"],
                ["diff", "print"], ["diff", "print", "v", "sg"], ["diff", "print", "si"]],
               {"write", "stdout", "desc", "diffapply"}, 25, 500, post=post)
    # the output modes must agree however the files are named (relative, absolute, overlapping, repeated)
    arg_forms_family(ctx, "output modes disagree")
    # descriptions: only for files to which a described change applied
    c12_descriptions(ctx)
    c12_no_write_syscalls(ctx)
    # F17: a patched file with CRLF line endings
    sc = Scenario("f17", ["@@\n@@\n-zzz(1)\n+yyy(1)\n"], {"crlf.go": "package odd\r\n\r\nfunc crlf() {\r\n\tzzz(1)\r\n}\r\n"}, "crlf-matched")
    run_scenarios(ctx, [sc], [["diff"], ["print"], []], {"write", "stdout", "desc", "diffapply"}, None)
    # a change that applies and leaves the bytes as they were (the '+' side spells the '-' side), next to one that changes
    # something: every mode with and without -v treats the file as patched
    ident = [Scenario(f"identity{k}", [pt], {"same.go": "package a\n\nfunc f(v int) {\n\tsend(v, nil)\n}\n", "other.go": "package a\n\nfunc g(v int) {\n\tsend(v, 1)\n\trecv(v)\n}\n"},
                      "a change that rewrites a file to the bytes it had")
             for k, pt in enumerate(["@@\nvar x expression\n@@\n-send(x, nil)\n+send(x, nil)\n",
                                     "# Keep nil sends as they are.\n@@\nvar x expression\n@@\n-send(x, nil)\n+send(x, nil)\n\n@@\nvar x expression\n@@\n-recv(x)\n+receive(x)\n"])]
    run_scenarios(ctx, ident, [["print", "v"], ["print"], [], ["v"], ["diff", "v"], ["diff"], ["diff", "print", "v"], ["print", "v", "si"]],
                  {"write", "stdout", "desc", "diffapply"}, None)
    # how the file ends: blank lines, blanks, a comment, no newline at all - the printed diff must take the original to the
    # very bytes the other modes give, its last line included
    invis = {"esc": "\x1b[31mred\x1b[0m", "formfeed": "a\x0cb", "bidi": "left\u202eright\u202c", "zero-width": "a\u200bb\ufeffc", "bell-backspace": "x\x07\x08y",
             "nbsp": "10\u00a0km", "del": "a\x7fb"}
    scs = [Scenario(f"invisible-{k}", ["@@\nvar x expression\n@@\n-zzz(x)\n+yyy(x)\n"],
                    {"i.go": f"package odd\n\n// {v} in a comment\nfunc inv() {{\n\tzzz(\"{v}\") // {v}\n\tkeep(`{v}`)\n}}\n"}, "invisible characters on the lines of a change")
           for k, v in invis.items()]
    run_scenarios(ctx, scs, [["diff"], ["print"], [], ["diff", "v"]], {"write", "stdout", "desc", "diffapply"}, None)
    ends = ["}\n\n\n", "}\n\n", "}\n\t\n", "}", "}\n\n// the end\n\n\n", "}\n/* tail */", "}\n\n\n\n\n\n\n\n"]
    scs = [Scenario(f"ending{k}", ["@@\n@@\n-zzz(1)\n+yyy(1)\n"],
                    {"e.go": "package odd\n\nfunc tail() {\n\tzzz(1)\n" + e, "f.go": "package odd\n\nfunc other() {\n\tkeep(2)\n" + e}, "file ending")
           for k, e in enumerate(ends)]
    run_scenarios(ctx, scs, [["diff"], ["print"], [], ["diff", "si"]], {"write", "stdout", "desc", "diffapply"}, None)

WRITE_SYSCALLS = "openat,open,creat,rename,renameat,renameat2,unlink,unlinkat,mkdir,mkdirat,rmdir,chmod,fchmod,fchmodat,chown,fchown,truncate,ftruncate,link,linkat,symlink,symlinkat,utimensat,utimes"

def c12_no_write_syscalls(ctx):
    """dry-run modes under strace: no system call that creates, changes or removes a file may succeed (a file written and put back,
    a temporary file created and deleted again, do not show in a comparison of the directory before and after)"""
    if not shutil.which("strace"):
        return
    probe = subprocess.run(["strace", "-f", "-o", "/dev/null", "-e", "trace=none", "true"], stdout=subprocess.PIPE, stderr=subprocess.PIPE)
    if probe.returncode != 0:
        return
    files = {"a.go": "package a\n\nimport \"fmt\"\n\nfunc f() { fmt.Println(foo(1)) }\n", "sub/b.go": "package b\n\nfunc g() { foo(2) }\n",
             "sub/un.go": "package b\n\nfunc h() { zzz(3) }\n", "gen.go": "// Code generated by x. DO NOT EDIT.\n\npackage a\n\nfunc k() { foo(4) }\n",
             "bad.go": "package a\n\nfunc {\n", "p.patch": "# describe\n@@\nvar x expression\n@@\n-foo(x)\n+barbaz(x)\n"}
    for flags in (["--diff"], ["--print-only"], ["--diff", "-v"], ["--print-only", "--skip-generated"], ["--diff", "--print-only"],
                  ["--print-only", "--skip-import-processing"]):
        root = ctx.scratch("nowrite")
        cl.write_tree(root, files)
        trace = os.path.join(root, "..", os.path.basename(root) + ".trace")
        cmd = ["strace", "-f", "-o", trace, "-e", "trace=" + WRITE_SYSCALLS, ctx.gopatch, "-p", "p.patch"] + flags + ["./..."]
        r = subprocess.run(cmd, cwd=root, stdout=subprocess.PIPE, stderr=subprocess.PIPE, timeout=120)
        ctx.evaluations += 1
        ctx.count("dry_runs_under_strace")
        ctx.nontrivial.add("nowrite:" + " ".join(flags))
        bad = []
        try:
            lines = open(trace).read().splitlines()
        except OSError:
            lines = []
        for l in lines:
            m = re.match(r"\d+\s+(\w+)\((.*)\)\s+=\s+(-?\d+)", l)
            if not m or int(m.group(3)) < 0:
                continue
            call, args = m.group(1), m.group(2)
            if call in ("openat", "open"):
                if not re.search(r"O_WRONLY|O_RDWR|O_CREAT|O_TRUNC|O_APPEND", args) or '"/dev/' in args or '"/proc/' in args:
                    continue
            bad.append(l.strip()[:160])
        try:
            os.remove(trace)
        except OSError:
            pass
        if bad:
            ctx.violation(f"gopatch {' '.join(flags)}: a dry-run mode made system calls that create, change or remove files: {bad[:3]}",
                          {"input": {"files": files, "args": ["-p", "p.patch"] + flags + ["./..."]}, "calls": bad[:10],
                           "reproduce": "strace -f -e trace=" + WRITE_SYSCALLS + " gopatch -p p.patch " + " ".join(flags) + " ./..."})
        shutil.rmtree(root, ignore_errors=True)

def matching_cases(ctx, cases, want, rng):
    """cases whose patch rewrites their own source (observed by a solo run)"""
    out = []
    pool = [c for c in cases if c.get("patches")]
    rng.shuffle(pool)
    for c in pool:
        if len(out) >= want:
            break
        sc = Scenario("probe", c["patches"], {"m.go": c["src"]})
        root, pargs = setup_scenario(ctx, sc)
        info = cl.classify(ctx.gopatch, root, pargs, "m.go", [])
        shutil.rmtree(root, ignore_errors=True)
        if info["apply"][0] == "ok":
            out.append(c)
    return out

@prop("C18")
def c18(ctx):
    facts_tie(ctx)
    ctx.rule = CLI_RULE + (" For this property the table of header shapes (marker line, marker after a licence header, @generated in "
                           "the package comment, build tag + marker, six near-miss spellings, @generated in a detached comment, marker "
                           "after the package clause, a marker after the package clause that is followed by a line starting with 'package' inside a raw string or a comment, no header) is enumerated exhaustively against patches that do match the file body; "
                           "the model side evaluates checkGenerated (Lean) on the comment structure.")
    rng = random.Random(ctx.seed)
    cases = gen_cases(ctx, "mix", 120, ctx.seed)
    bases = matching_cases(ctx, cases, 3 if ctx.tier == "quick" else 25, rng)
    headers = GENERATED_HEADERS + [("marker-after-package", None, False), ("marker-in-body", None, False),
                                   ("marker-then-package-line-in-raw-string", None, False), ("marker-then-package-line-in-comment", None, False),
                                   ("marker-in-raw-string-at-line-start", None, False)]
    scen = []
    for bi, base in enumerate(bases):
        for name, hdr, isgen in headers:
            src = base["src"]
            # (what follows the package clause: the base file may start with comments, so the first line is not always the clause -
            # false alarm of the thorough sweep, seed 191)
            after_clause = lambda text, ins: re.sub(r"^(package [^\n]*)\n", lambda m_: m_.group(1) + "\n" + ins, text, count=1, flags=re.M)
            if hdr is None and name == "marker-after-package":
                src = after_clause(src, "// Code generated by x. DO NOT EDIT.\n")
            elif hdr is None and name == "marker-then-package-line-in-raw-string":
                # the package clause is the first line; below it a generator's template, which itself starts like a generated file
                src = after_clause(src, "\nconst tmpl = `\n// Code generated by x. DO NOT EDIT.\n\npackage {{.Name}}\n`\n")
            elif hdr is None and name == "marker-then-package-line-in-comment":
                src = after_clause(src, "\n// Code generated by x. DO NOT EDIT.\n\n/*\npackage old\n*/\n")
            elif hdr is None and name == "marker-in-raw-string-at-line-start":
                src = "// Package doc.\n" + src + "\nvar hdr = `\n// Code generated by x. DO NOT EDIT.\npackage y\n`\n"
            elif hdr is None:
                src = src + "\n// Code generated by x. DO NOT EDIT.\n"
            else:
                if not hdr.endswith("\n\n") and hdr:
                    # a header meant to be the package comment must stand directly above the package clause: the comments the
                    # base file starts with (a copyright block followed by a blank line) would detach it (false alarm of the
                    # thorough sweep, seed 91)
                    mm = re.search(r"^package ", src, re.M)
                    if mm:
                        src = src[mm.start():]
                src = hdr + src
            files = {"g/" + name.replace("-", "_") + ".go": src, "plain.go": base["src"]}
            if hdr is not None:
                # the same header on a file in which nothing matches
                files["g/u_" + name.replace("-", "_") + ".go"] = hdr + "package q\n\nfunc nothing() { var zzz_unmatched_token int; _ = zzz_unmatched_token }\n"
            sc = Scenario(f"b{bi}-{name}", base["patches"], files,
                          note=f"header={name} expect_generated={isgen}")
            sc.expect = isgen
            scen.append(sc)
    # the library has no such flag: it patches generated files like any other, exactly as the command line does without the flag
    libcases = []
    for bi, base in enumerate(bases[:3]):
        if len(base.get("patches", [])) != 1:
            continue
        for name, hdr, isgen in headers:
            if hdr is not None:
                src = base["src"]
                mm = re.search(r"^package ", src, re.M)
                if hdr and not hdr.endswith("\n\n") and mm:
                    src = src[mm.start():]
                libcases.append({"id": f"lib{bi}-{name}", "patches": base["patches"], "src": hdr + src})
    trip = cli_print_triples(ctx, libcases)
    ctx.count("library_on_generated_files", len(trip))
    api_vs_cli(ctx, trip, "C18 (without the flag the markers have no effect: the library API)")
    # an unmarked file is processed exactly as without the flag: whatever the patch does (import edits decided from the
    # resolved file, several changes, rewrites that are refused), the same bytes, the same diagnostics, the same exit status
    neutral = [c for c in gen_cases(ctx, "c11", 80 if ctx.tier == "quick" else 2000, ctx.seed + 18, golden=False) if len(c.get("patches", [])) >= 1]
    neutral += [c for c in gen_cases(ctx, "c09", 40 if ctx.tier == "quick" else 800, ctx.seed + 19, golden=False) if c.get("chain")]
    neutral.append({"id": "shadow", "patches": ["@@\n@@\n-import \"net/url\"\n+import \"example.com/safeurl\"\n\n-url.Parse(...)\n+safeurl.Parse(...)\n"],
                    "src": "package a\n\nimport \"net/url\"\n\nfunc f(s string) string {\n\turl, err := url.Parse(s)\n\tif err != nil {\n\t\treturn \"\"\n\t}\n\treturn url.Hostname()\n}\n"})
    neutral.append({"id": "shadow-param", "patches": ["@@\n@@\n-import \"old/log\"\n+import \"new/zap\"\n\n-log.Print(...)\n+zap.Print(...)\n"],
                    "src": "package a\n\nimport \"old/log\"\n\nfunc warn(log *Logger) {\n\tlog.Info(1)\n}\n\nfunc g() {\n\tlog.Print(2)\n}\n"})
    neutral += [{"id": f"misfit{k}", "patches": [p_], "src": s_} for k, (p_, s_) in enumerate(MISFIT[:4])]
    def flag_neutral(c):
        root = ctx.scratch("c18n")
        files = {"a.go": c["src"]}
        pargs = []
        for k, p_ in enumerate(c.get("chain") or c["patches"]):
            files[f"p{k}.patch"] = p_
            pargs += ["-p", f"p{k}.patch"]
        cl.write_tree(root, files)
        out = []
        for mode in ([], ["--diff"], ["--print-only", "--skip-import-processing"]):
            a = cl.gopatch(ctx.gopatch, root, pargs + ["--print-only"] + mode + ["a.go"])
            b = cl.gopatch(ctx.gopatch, root, pargs + ["--print-only", "--skip-generated"] + mode + ["a.go"])
            out.append((mode, a, b))
        shutil.rmtree(root, ignore_errors=True)
        return c, out
    with ThreadPoolExecutor(max_workers=8) as ex:
        for c, outs in ex.map(flag_neutral, neutral):
            for mode, a, b in outs:
                ctx.evaluations += 1
                ctx.count("flag_neutral_on_unmarked_files")
                if a[0] == 0 and a[1] != c["src"].encode():
                    ctx.nontrivial.add("neutral:" + json.dumps(c["patches"]) + c["src"])
                if a != b:
                    ctx.violation("an unmarked file is processed differently with --skip-generated than without it (same patch, same file, "
                                  f"flags {' '.join(['--print-only'] + mode)}): exit {a[0]} / {b[0]}, stdout equal: {a[1] == b[1]}, stderr equal: {a[2] == b[2]}",
                                  {"input": {"patches": c.get("chain") or c["patches"], "src": c["src"]},
                                   "without_flag": a[1].decode("utf-8", "replace")[-800:], "with_flag": b[1].decode("utf-8", "replace")[-800:]})
    optsets = [["sg"], ["sg", "print"], ["sg", "diff"], ["print"], [], ["sg", "v"], ["sg", "si"], ["sg", "si", "print"], ["sg", "si", "diff", "v"]]
    ctx.extra["exhaustive"] = True
    ctx.extra["header_shapes"] = [h[0] for h in headers]
    def one(sc):
        root, pargs = setup_scenario(ctx, sc)
        res = []
        for k, opts in enumerate(optsets):
            work = root
            if not ("diff" in opts or "print" in opts):
                work = f"{root}-w{k}"
                shutil.copytree(root, work)
                ctx.scratch_dirs.append(work)
            infos = classify_all(ctx, work, pargs, sorted(sc.files), opts)
            pred = cl.model_predict(ctx.driver, [(sc.id, opts, infos)]).get(sc.id)
            obs = observe(ctx, work, pargs, opts, ["."])
            res.append((opts, infos, pred, obs, work))
        return sc, res
    with ThreadPoolExecutor(max_workers=8) as ex:
        results = list(ex.map(one, scen))
    for sc, res in results:
        for opts, infos, pred, obs, work in res:
            ctx.evaluations += 1
            ctx.nontrivial.add(sc.id + "+".join(opts))
            ctx.count("flags:" + "+".join(opts or ["default"]))
            found = []
            probs = compare_run(work, opts, infos, pred, obs)
            for c in ("write", "stdout", "desc", "unmatched", "exit"):
                found += probs[c]
            for gi in [i for i in infos if i["provided"].startswith("g/")]:
                if "sg" not in opts:
                    continue
                # the property itself: generated <=> completely untouched
                rel = gi["provided"]
                touched = obs["before"].get(rel) != obs["after"].get(rel)
                so = obs["stdout"].decode("utf-8", "replace")
                # (with -v the log line "generated file <path>: skipped" names the file: only a diff header counts)
                shown = (("--- " + rel) in so) if "diff" in opts else ("zzz_unmatched_token" in so and "/u_" in rel)
                if sc.expect and (touched or shown or any(l.startswith(rel + ":") for l in obs["stderr"].split("\n"))):
                    found.append(f"{rel}: generated file was processed under --skip-generated" + (" (its contents are printed)" if shown else ""))
                if sc.expect != gi["generated"]:
                    found.append(f"{rel}: header shape {sc.note}: skip decision of the binary is {gi['generated']}")
            if len(ctx.samples) < 3:
                ctx.sample({"scenario": sc.id, "note": sc.note, "flags": opts, "exit": obs["exit"]})
            if found:
                ctx.violation("; ".join(found[:4]), {
                    "input": {"patches": sc.patches, "files": sc.files, "flags": flags_of(opts)},
                    "observed": {"exit": obs["exit"], "stderr": obs["stderr"][-1500:]},
                    "problems": found})
    # the Lean predicate against the binary's decision, on the comment structure of each header
    gen_predicate_check(ctx, scen)

def gen_predicate_check(ctx, scen):
    """Lean checkGenerated on comment structure extracted by go/parser (harness `comments`)
    vs expectation table."""
    d = ctx.scratch("genpred")
    lines = []
    exp = {}
    for k, sc in enumerate(scen):
        gname = [n for n in sc.files if n.startswith("g/")][0]
        p = os.path.join(d, f"f{k}.go")
        with open(p, "w") as f:
            f.write(sc.files[gname])
        lines.append(p)
        exp[f"f{k}"] = sc.expect
    r = subprocess.run([ctx.harness, "comments"], input="\n".join(lines) + "\n", stdout=subprocess.PIPE, stderr=subprocess.PIPE, text=True)
    if r.returncode != 0:
        ctx.broken("harness", "zzverif comments failed: " + r.stderr[-1000:])
        return
    m = subprocess.run([ctx.driver], input=r.stdout, stdout=subprocess.PIPE, stderr=subprocess.PIPE, text=True)
    for l in m.stdout.splitlines():
        sx = parse_sx(l)
        if sx and sx[0] == "res":
            ctx.evaluations += 1
            got = sx[2] == "1"
            if got != exp.get(sx[1]):
                ctx.broken("model", f"Lean checkGenerated disagrees with the expectation table on {sx[1]}")

# --- C07 -------------------------------------------------------------------
MISFIT = [
    # (patch, source) pairs whose rewrite is not valid Go in some positions
    ("@@\nvar x expression\n@@\n-foo(x)\n+T{x}\n",
     "package a\n\nfunc f() {\n\tif foo(1) == y {\n\t}\n\tz := foo(2)\n\t_ = z\n}\n"),
    ("@@\nvar x expression\n@@\n-foo(x)\n+T{x}\n",
     "package a\n\nfunc f() {\n\tz := foo(2)\n\t_ = z\n}\n"),
    ("@@\nvar x expression\n@@\n-foo(x)\n+struct{ A int }{x}\n",
     "package a\n\nfunc f() {\n\tfor foo(1).ok() {\n\t}\n}\n"),
    ("@@\nvar x expression\n@@\n-foo(x)\n+pkg.T{A: x}\n",
     "package a\n\nfunc f() {\n\tswitch foo(1) {\n\tcase 1:\n\t}\n}\n"),
    ("@@\nvar x, y expression\n@@\n-foo(x, y)\n+map[string]int{x: y}\n",
     "package a\n\nfunc f() {\n\tif v := foo(\"a\", 1); v != nil {\n\t}\n\tfor range foo(\"b\", 2) {\n\t}\n}\n"),
    ("@@\nvar x expression\n@@\n-foo(x)\n+[]int{x}\n",
     "package a\n\nfunc f() {\n\tif len(foo(1)) > 0 {\n\t}\n\tif foo(2)[0] > 0 {\n\t}\n}\n"),
    # the same kind of rewrite together with an import edit that changes the shape of the import block
    ("@@\nvar x expression\n@@\n-import \"os\"\n\n-foo(x)\n+T{x}\n",
     "package a\n\nimport (\n\t\"fmt\"\n\t\"os\"\n)\n\nvar _ = fmt.Sprint\n\nfunc f() {\n\tif foo(1) == y {\n\t}\n}\n"),
    ("@@\nvar x expression\n@@\n-import \"os\"\n\n-foo(x)\n+T{x}\n",
     "package a\n\nimport (\n\t\"os\"\n)\n\nfunc f() {\n\tfor foo(1) != nil {\n\t}\n}\n"),
    ("@@\nvar x expression\n@@\n+import \"io\"\n\n-foo(x)\n+io.T{x}\n",
     "package a\n\nfunc f() {\n\tswitch foo(1) {\n\t}\n}\n"),
    ("@@\nvar x expression\n@@\n-import \"os\"\n+import \"io\"\n\n-os.foo(x)\n+io.T{x}\n",
     "package a\n\nimport \"os\"\n\nfunc f() {\n\tif os.foo(1) == y {\n\t}\n}\n"),
]

def emitted_parse_check(ctx, contents):
    """contents: list of (label, bytes) -> list of labels that do not parse"""
    if not contents:
        return []
    d = ctx.scratch("parse")
    names = []
    for k, (label, data) in enumerate(contents):
        p = os.path.join(d, f"e{k}.go")
        with open(p, "wb") as f:
            f.write(data)
        names.append(p)
    r = subprocess.run([ctx.harness, "parses"], input="\n".join(names) + "\n", stdout=subprocess.PIPE, text=True)
    shutil.rmtree(d, ignore_errors=True)
    flags = r.stdout.split()
    return [contents[i][0] for i, f in enumerate(flags) if f != "1"]

def _after_package(src, text):
    head, rest = src.split("\n", 1)
    return head + "\n\n" + text + rest

FILE_DECORATIONS = [
    ("cgo", lambda s: _after_package(s, "/*\n#include <stdio.h>\n*/\nimport \"C\"\n")),
    ("cgo-group", lambda s: _after_package(s, "import (\n\t\"C\"\n\t\"fmt\"\n)\n\nvar _ = fmt.Sprint\n")),
    ("dot-import", lambda s: _after_package(s, "import . \"fmt\"\n\nvar _ = Sprint\n")),
    ("blank-import", lambda s: _after_package(s, "import _ \"embed\"\n")),
    ("build-tag", lambda s: "//go:build linux && cgo\n// +build linux,cgo\n\n" + s),
    ("generated-header", lambda s: "// Code generated by tool. DO NOT EDIT.\n\n" + s),
    ("test-package", lambda s: s.replace("package a", "package a_test", 1)),
    ("main-package", lambda s: s.replace("package a", "package main", 1) + "\nfunc main() {}\n\nfunc init() {}\n"),
    ("import-group-of-one", lambda s: _after_package(s, "import (\n\t\"fmt\"\n)\n\nvar _ = fmt.Sprint\n")),
    ("import-group-of-two", lambda s: _after_package(s, "import (\n\t\"fmt\"\n\t\"os\"\n)\n\nvar _, _ = fmt.Sprint, os.Exit\n")),
    ("import-two-declarations", lambda s: _after_package(s, "import \"fmt\"\nimport \"os\"\n\nvar _, _ = fmt.Sprint, os.Exit\n")),
    ("import-empty-group", lambda s: _after_package(s, "import ()\n")),
]

VALID_REWRITES = [
    ("@@\nvar x expression\n@@\n-foo(x)\n+bar(x)\n", "package a\n\nfunc f() {\n\tz := foo(2)\n\t_ = z\n}\n"),
    ("@@\nvar x expression\n@@\n-foo(x)\n+bar(x, `multi\n+line`)\n", "package a\n\nfunc f() {\n\tif foo(1) == y {\n\t}\n}\n"),
]
_LONG = "\nconst big = \"" + "x" * 70000 + "\"\n\nfunc long() {\n\tuse(\"" + "y" * 66000 + "\")\n}\n"
BYTE_DECORATIONS = [
    ("crlf", lambda s: s.replace("\n", "\r\n")),
    ("long-line", lambda s: s + _LONG),
    ("crlf-long-line", lambda s: (s + _LONG).replace("\n", "\r\n")),
    ("long-line-in-first-block", lambda s: _after_package(s, "func long() {\n\tuse(\"" + "y" * 66000 + "\")\n\tmore()\n}\n\n")),
    ("crlf-long-line-in-first-block", lambda s: _after_package(s, "func long() {\n\tuse(\"" + "y" * 66000 + "\")\n\tmore()\n}\n\n").replace("\n", "\r\n")),
    ("bom", lambda s: "\ufeff" + s),
    ("no-final-newline", lambda s: s.rstrip("\n")),
    ("cr-only-in-raw-string", lambda s: s + "\nvar raw = `a\r\nb`\n"),
    ("nul-in-string", lambda s: s + "\nvar z = \"a\\x00b\"\n"),
    ("many-lines", lambda s: s + "".join(f"\nfunc gen{i}() {{ use({i}) }}\n" for i in range(3000))),
    ("raw-bidi-and-control-characters", lambda s: s + "\n// bidi \u202e here \u202c\nvar rlo, zw, esc = '\u202e', '\u200b', \"\x1b[0m \u2066x\u2069\"\n"),
    ("trailing-blanks-in-raw-string", lambda s: s + "\nvar md = `first line  \n\t\nsecond\t\n`\n"),
]

@prop("C07")
def c07(ctx):
    library_reuse_family(ctx, "C07: what Apply returns without an error parses as Go, on every call")
    def post(ctx, sc, opts, infos, pred, obs, work):
        contents = []
        by_prov = {i["provided"]: i for i in infos}
        for rel in obs["after"]:
            if rel.endswith(".go") and rel in obs["before"] and obs["after"][rel][0] != obs["before"][rel][0]:
                contents.append((f"{rel} as written in place", obs["after"][rel][0]))
        so = obs["stdout"].decode("utf-8", "surrogateescape")
        if "print" in opts:
            # each patched file's printed bytes were observed solo; they are what the grouped run prints
            for i in infos:
                if i["apply"][0] == "ok":
                    b = i["apply"][1]
                    contents.append((f"{i['provided']} as printed by --print-only", b if isinstance(b, bytes) else b.encode()))
        if "diff" in opts:
            for name, chunk in split_diff(so).items():
                if name in by_prov and by_prov[name]["content"] is not None:
                    res = cl.apply_unified_diff(by_prov[name]["content"].decode("utf-8", "surrogateescape"), chunk)
                    if res is not None:
                        contents.append((f"{name} as implied by --diff", res.encode("utf-8", "surrogateescape")))
        bad = emitted_parse_check(ctx, contents)
        ctx.count("emitted_contents", len(contents))
        out = [f"{b}: emitted content does not parse although gopatch reported success for it" for b in bad]
        return out
    ctx.extra["misfit_table"] = len(MISFIT)
    rng = random.Random(ctx.seed)
    # part 1: table of rewrites that do not fit, in every mode and flag combination
    scen = []
    for k, (patch, src) in enumerate(MISFIT):
        scen.append(Scenario(f"misfit{k}", [patch], {"m.go": src, "other.go": "package a\n\nfunc g() { foo(7) }\n"}, "misfit"))
    # several files of one run whose rewrites are unparseable in the same way (the same messages at the same or at other places):
    # each of them is refused
    for k, (patch, src) in enumerate(MISFIT):
        moved = src.replace("package a\n", "package a\n\n// moved down\n\nvar pad = 0\n", 1)
        scen.append(Scenario(f"misfit{k}-thrice", [patch], {"m.go": src, "n.go": re.sub(r"\b1\b", "11", src), "sub/o.go": moved, "other.go": "package a\n\nfunc g() { foo(7) }\n"},
                             "the same unparseable rewrite in three files"))
    # the same rewrites in files with features that influence how the result is post-processed
    for k, (patch, src) in enumerate(MISFIT[: (3 if ctx.tier == "quick" else len(MISFIT))]):
        for fname, deco in FILE_DECORATIONS:
            scen.append(Scenario(f"misfit{k}-{fname}", [patch], {"m.go": deco(src), "other.go": "package a\n\nfunc g() { foo(7) }\n"}, "misfit in a file with " + fname))
    # rewrites that DO fit, in files whose bytes need care after the rewrite was validated (line endings, very long
    # lines, byte order mark, no final newline): whatever is emitted must still parse
    for k, (vp, vs) in enumerate(VALID_REWRITES):
        for fname, deco in BYTE_DECORATIONS:
            scen.append(Scenario(f"valid{k}-{fname}", [vp], {"m.go": deco(vs), "other.go": "package a\n\nfunc g() { foo(7) }\n"},
                                 "valid rewrite in a file with " + fname))
    # a refused file among files whose results are large (several KiB each, before and after it on the command line): what
    # is emitted for the files reported fine is emitted whole, whatever happens to the run as a whole
    def big(tag, n):
        return "package a\n" + "".join(f"\nfunc {tag}{i}(count int) int {{\n\treturn foo(count + {i}) // {tag}\n}}\n" for i in range(n))
    for k in (0, 3, 6, 8):
        patch, src = MISFIT[k]
        for n in ((40,) if ctx.tier == "quick" else (40, 70, 300)):
            scen.append(Scenario(f"misfit{k}-among-large-{n}", [patch],
                                 {"a_large.go": big("alpha", n + rng.randint(0, 9)), "m.go": src, "z_large.go": big("zulu", n + rng.randint(0, 9))},
                                 "misfit among files with large results"))
    # a valid rewrite that makes a line longer than any buffer a line reader starts with (the original has no such line)
    for k, n_ in enumerate((40000, 600000) if ctx.tier == "quick" else (40000, 70000, 600000, 1100000)):
        lit = "y" * n_
        scen.append(Scenario(f"huge-line-{n_}", ["@@\nvar x expression\n@@\n-join(x)\n+concat(x, x)\n"],
                             {"m.go": f"package a\n\nfunc f() string {{\n\treturn join(\"{lit}\")\n}}\n\nfunc after() {{ keep() }}\n",
                              "other.go": "package a\n\nfunc g() { foo(7) }\n"}, "a rewrite that creates a very long line"))
    scen += corpus_scenarios("C07")
    optsets = [[], ["si"], ["print"], ["print", "si"], ["diff"], ["diff", "si"], ["diff", "v"], ["print", "v", "si"], ["v"], ["diff", "print", "v"]]
    run_scenarios(ctx, scen, optsets, {"write", "stdout", "exit"}, post)
    # the temporary sibling cannot be created (250-byte name) and the result is shorter than the original: whatever ends
    # up on disk under exit status 0 must parse
    root = ctx.scratch("c07long")
    longname = "y" * 247 + ".go"
    lsrc = "package a\n\nfunc g() {\n" + "".join(f"\taRatherLongFunctionName({i})\n" for i in range(30)) + "}\n"
    cl.write_tree(root, {"d/" + longname: lsrc, "p.patch": "@@\nvar x expression\n@@\n-aRatherLongFunctionName(x)\n+g(x)\n"})
    code, out, err = cl.gopatch(ctx.gopatch, root, ["-p", "p.patch", "d"])
    ctx.evaluations += 1
    ctx.nontrivial.add("c07-long-name")
    after = open(os.path.join(root, "d", longname), "rb").read()
    if code == 0 and emitted_parse_check(ctx, [("long-named file after a successful run", after)]):
        ctx.violation("exit status 0 but the file on disk does not parse (its temporary sibling could not be created)",
                      {"input": {"files": [longname], "patch": "-aRatherLongFunctionName(x) / +g(x)"}, "on_disk_tail": after[-200:].decode("utf-8", "replace")})
    elif code != 0 and after != lsrc.encode():
        ctx.violation("the run failed for the long-named file but its bytes changed", {"input": {"files": [longname]}})
    # a rewrite that does not parse must fail with and without import processing alike
    for sc in scen:
        root, pargs = setup_scenario(ctx, sc)
        a = cl.gopatch(ctx.gopatch, root, pargs + ["--print-only", "m.go"])
        b = cl.gopatch(ctx.gopatch, root, pargs + ["--print-only", "--skip-import-processing", "m.go"])
        ctx.evaluations += 1
        if (a[0] == 0) != (b[0] == 0):
            ctx.violation(f"{sc.id}: exit {a[0]} with import processing but {b[0]} with --skip-import-processing",
                          {"input": {"patches": sc.patches, "files": sc.files}, "with": a[2].decode()[-500:], "without": b[2].decode()[-500:]})
    # part 2: generated scenarios
    ctx.rule = CLI_RULE + (" Additionally every emitted content (written, printed, implied by the diff) is parsed with go/parser, "
                           "and a table of rewrites that do not fit syntactically (composite literals in if/for/switch headers) is run in all modes.")
    n = 20 if ctx.tier == "quick" else 500
    cases = gen_cases(ctx, "c03", 150 if ctx.tier == "quick" else 1500, ctx.seed)
    scen2 = make_scenarios(ctx, cases, n, rng, {"odd"})
    run_scenarios(ctx, scen2, [[], ["si"], ["print", "si"], ["diff", "si"]], {"write", "exit"}, post)
    # library API
    api_parse_check(ctx, cases[: (100 if ctx.tier == "quick" else 1500)] +
                    [{"id": f"misfit{k}", "patches": [p], "src": s} for k, (p, s) in enumerate(MISFIT)] +
                    [{"id": f"misfit{k}-{fn}", "patches": [p], "src": deco(s)} for k, (p, s) in enumerate(MISFIT[:3]) for fn, deco in FILE_DECORATIONS] +
                    [{"id": f"valid{k}-{fn}", "patches": [p], "src": deco(s)} for k, (p, s) in enumerate(VALID_REWRITES) for fn, deco in BYTE_DECORATIONS])

def run_scenarios(ctx, scen, optsets, categories, post=None):
    def one(sc):
        out = []
        root, pargs = setup_scenario(ctx, sc)
        for k, opts in enumerate(optsets):
            work = root
            if not ("diff" in opts or "print" in opts):
                work = f"{root}-w{k}"
                shutil.copytree(root, work, symlinks=True)
                ctx.scratch_dirs.append(work)
            infos = classify_all(ctx, work, pargs, sorted(sc.files), opts)
            if any(i["apply"][0] == "unknown" for i in infos):
                out.append((sc, opts, infos, None, None, work))
                continue
            pred = cl.model_predict(ctx.driver, [(sc.id, opts, infos)]).get(sc.id)
            obs = observe(ctx, work, pargs, opts, ["."])
            out.append((sc, opts, infos, pred, obs, work))
        return out
    with ThreadPoolExecutor(max_workers=8) as ex:
        res = list(ex.map(one, scen))
    for runs in res:
        for sc, opts, infos, pred, obs, work in runs:
            ctx.evaluations += 1
            if pred is None:
                ctx.count("unclassifiable")
                silent_unaccounted(ctx, sc, opts, infos)
                continue
            ctx.count("flags:" + "+".join(opts or ["default"]))
            ctx.count("outcomes:" + ",".join(sorted(set(i["apply"][0] for i in infos))))
            if any(i["apply"][0] != "nomatch" or not i["parses"] for i in infos):
                ctx.nontrivial.add(sc.id + "|" + "+".join(opts))
            if len(ctx.samples) < 3:
                ctx.sample({"scenario": sc.id, "note": sc.note, "flags": opts, "files": sorted(sc.files),
                            "patch": sc.patches[0][:300], "exit": obs["exit"],
                            "outcomes": {i["provided"]: i["apply"][0] for i in infos}})
            probs = compare_run(work, opts, infos, pred, obs)
            found = [p for c in categories for p in probs[c]]
            if post:
                found += post(ctx, sc, opts, infos, pred, obs, work)
            if found:
                ctx.violation("; ".join(found[:4]), {
                    "input": {"patches": sc.patches, "files": sc.files, "flags": flags_of(opts)},
                    "observed": {"exit": obs["exit"], "stderr": obs["stderr"][-2000:]},
                    "problems": found,
                    "reproduce": "create files and p<i>.patch in a directory, run: gopatch -p p0.patch [...] <flags> ."})

def run_api(ctx, cases, rep=2, conc=0):
    d = ctx.scratch("api")
    p = os.path.join(d, "in.jsonl")
    with open(p, "w") as f:
        for c in cases:
            if len(c.get("patches", [])) == 1:
                f.write(json.dumps(c) + "\n")
    r = run([ctx.harness, "api", "-inputs", p, "-rep", str(rep), "-conc", str(conc)], timeout=1800)
    shutil.rmtree(d, ignore_errors=True)
    if r.returncode != 0:
        ctx.broken("harness", "zzverif api failed: " + r.stderr[-2000:])
        return []
    return [json.loads(l) for l in r.stdout.splitlines() if l.strip()]

def api_parse_check(ctx, cases):
    outs = run_api(ctx, cases)
    byid = {c["id"]: c for c in cases}
    contents = []
    for o in outs:
        ctx.evaluations += 1
        if o.get("panic"):
            continue
        if not o.get("parse_err") and not o.get("err"):
            contents.append((o["id"], o["out"].encode("utf-8", "surrogateescape")))
    bad = emitted_parse_check(ctx, contents)
    ctx.count("api_outputs", len(contents))
    for b in bad:
        c = byid[b]
        ctx.violation("library API returned content that does not parse", {"input": {"patches": c["patches"], "src": c["src"]}})

# --- C14 -------------------------------------------------------------------
REPEAT_TABLE = [
    # F26 (fixed): several diagnostics for one patch were reported in map iteration order
    ("@@\n@@\n-qux(...)\n+qux(......)\n", "package a\n\nfunc f() { qux(1) }\n"),
    ("@@\n@@\n-qux(...)\n+qux(......, ......)\n", "package a\n\nfunc f() { qux(1) }\n"),
    # a rewrite whose old and new lists can be paired in more than one way (results, statements, fields)
    ("# Errors go last.\n@@\nvar f identifier\nvar e expression\n@@\n-func f(...) (error, int, int) {\n-\treturn e, 0, 0\n+func f(...) (*Pos, error) {\n+\treturn nil, e\n }\n",
     "package p\n\nimport \"errors\"\n\nvar errNotFound = errors.New(\"not found\")\n\n// find looks up k.\nfunc find(k string) (error, int, int) {\n\treturn errNotFound, 0, 0\n}\n"),
    ("@@\nvar a, b, c expression\n@@\n-call(a, b, c)\n+call(c, a)\n",
     "package p\n\nfunc f() {\n\t// before\n\tcall(x, // one\n\t\ty, // two\n\t\tz) // three\n\t// after\n}\n"),
    ("@@\nvar x identifier\n@@\n-x.Lock()\n-defer x.Unlock()\n+defer guard(x)()\n+trace()\n+trace()\n",
     "package p\n\nfunc f(mu M) {\n\t// take it\n\tmu.Lock()\n\tdefer mu.Unlock() // release\n\n\t// work\n\twork()\n}\n"),
]

def c14_repeat(ctx):
    """the same command on the same inputs, in fresh processes: every run must print the same bytes"""
    rng = random.Random(ctx.seed + 14)
    jobs = [(f"t{k}", [p], s) for k, (p, s) in enumerate(REPEAT_TABLE)]
    for i, c in enumerate(gen_cases(ctx, "c05", 120 if ctx.tier == "quick" else 2500, ctx.seed + 5)):
        if len(c.get("patches", [])) >= 1:
            src = inject_comments(rng, c["src"]) or c["src"]
            jobs.append((f"r{i}", c["patches"], src))
    reps = 5 if ctx.tier == "quick" else 9
    def one(job):
        cid, patches, src = job
        root = ctx.scratch("rep")
        with open(os.path.join(root, "a.go"), "w") as f:
            f.write(src)
        pargs = []
        for k, p in enumerate(patches):
            with open(os.path.join(root, f"p{k}.patch"), "w") as f:
                f.write(p)
            pargs += ["-p", f"p{k}.patch"]
        outs = []
        for _ in range(reps):
            code, out, err = cl.gopatch(ctx.gopatch, root, pargs + ["--print-only", "a.go"])
            outs.append((code, out, err))
        shutil.rmtree(root, ignore_errors=True)
        return job, outs
    with ThreadPoolExecutor(max_workers=16) as ex:
        for (cid, patches, src), outs in ex.map(one, jobs):
            ctx.evaluations += 1
            ctx.count("repeated_runs")
            if outs[0][0] == 0 and outs[0][1].decode("utf-8", "replace") != src:
                ctx.nontrivial.add("repeat:" + cid)
            diff = [k for k, o in enumerate(outs) if o != outs[0]]
            if diff:
                ctx.violation(f"run {diff[0] + 1} of the same command on the same inputs differs from the first run (of {reps} runs, {len(diff)} differ)",
                              {"input": {"patches": patches, "files": {"a.go": src}, "args": ["--print-only", "a.go"]},
                               "first": outs[0][1].decode("utf-8", "replace")[-1500:], "other": outs[diff[0]][1].decode("utf-8", "replace")[-1500:],
                               "reproduce": "repeat: gopatch -p p0.patch --print-only a.go"})

@prop("C14")
def c14(ctx):
    ctx.rule = CLI_RULE + (" For this property every grouped run is predicted from solo runs of each file (file independence), the "
                           "target arguments are permuted / repeated / given as directories and files mixed, neighbours that match, "
                           "fail to parse or are generated are mixed in, and the library API is called repeatedly and from 8 goroutines "
                           "on one parsed patch. A batch of (patch, file) pairs with comments is run several times in fresh processes: every run "
                           "must print the same bytes.")
    rng = random.Random(ctx.seed)
    n = 25 if ctx.tier == "quick" else 600
    cases = gen_cases(ctx, "mix", 150 if ctx.tier == "quick" else 2000, ctx.seed)
    scen = make_scenarios(ctx, cases, n, rng, {"unparseable", "generated", "odd"})
    # neighbours whose rewrite is rejected (not valid Go) or fails, before and after files that are patched fine
    for k, (mp, ms) in enumerate(MISFIT):
        good = "package a\n\nfunc ok() {\n\tz := foo(7)\n\t_ = z\n}\n"
        for pos, names in enumerate((("a_bad.go", "b_good.go", "c_good.go"), ("a_good.go", "m_bad.go", "z_good.go"), ("a_good.go", "b_good.go", "z_bad.go"))):
            files = {nm: (ms if "bad" in nm else good.replace("ok()", f"ok{j}()")) for j, nm in enumerate(names)}
            scen.append(Scenario(f"misfit{k}_{pos}", [mp], files, "rejected rewrite next to good files"))
    for pos, names in enumerate((("a_bad.go", "b_good.go"), ("a_good.go", "z_bad.go"), ("a_bad.go", "b_good.go", "c_bad.go", "d_good.go"))):
        # the same change cannot be generated in one file (x stands for a call) and can in the next (x stands for a name)
        files = {nm: (REPLACE_ERR[1] if "bad" in nm else f"package a\n\nfunc ok{j}() {{ foo(name{j}) }}\n") for j, nm in enumerate(names)}
        scen.append(Scenario(f"rerr_{pos}", [REPLACE_ERR[0]], files, "rewrite error in one file, the same change succeeds in the next"))
        files2 = {nm: ("package a\n\nfunc f() {\n\tcall(obj, mk())\n}\n" if "bad" in nm else f"package a\n\nfunc g{j}() {{\n\tcall(obj, Name{j})\n}}\n") for j, nm in enumerate(names)}
        scen.append(Scenario(f"rerr2_{pos}", ["@@\nvar recv, name expression\n@@\n-call(recv, name)\n+recv.name()\n"], files2,
                             "site-dependent rewrite error before a file where the change applies"))
    for pos, names in enumerate((("a.go", "b.go"), ("a.go", "b.go", "c/d.go"))):
        files = {nm: f"package a\n\nfunc f{j}() {{\n\tfoo({j})\n}}\n" for j, nm in enumerate(names)}
        for rk, rp in enumerate((_NODOTS, _KINDS.replace("run", "foo"), _PLUSONLY.replace("h(x)", "foo(x)"))):
            scen.append(Scenario(f"rerr3_{pos}_{rk}", [rp], files, "a change that is refused in every file it matches: in each of them alike"))
    # lists generated inside lists (an elision reproduced twice, once inside a nested call), after a file in which an item of such
    # a list cannot be generated; and the failures inside lists of C16's table: what the next file gets is its own result
    nested = "@@\nvar f expression\n@@\n-invoke(f, ...)\n+client.Call(api.f, trace(...), ...)\n"
    for pos, names in enumerate((("a/a.go", "b/b.go"), ("b/b.go", "z/a.go"), ("a/a.go", "b/b.go", "c/a.go", "d/b.go"))):
        files = {nm: ("package a\n\nfunc a1() {\n\tinvoke(Get, \"k\", 1)\n}\n\nfunc a2() {\n\tinvoke(pkg.Get, \"k\", 2)\n}\n" if nm.endswith("a.go") else
                      f"package b\n\nfunc b1() {{\n\tinvoke(Put, \"x\", 1{j})\n}}\n\nfunc b2() {{\n\tinvoke(Del, \"y\", 2{j}, 30)\n}}\n") for j, nm in enumerate(names)}
        scen.append(Scenario(f"nested-lists_{pos}", [nested], files, "nested generated lists after a file where a list item cannot be generated"))
    for lk, (lp, lbad, lgood) in enumerate(LIST_REPLACE_ERR):
        scen.append(Scenario(f"listerr{lk}", [lp], {"a_bad.go": lbad, "b_good.go": lgood, "c_bad.go": lbad, "d_good.go": lgood.replace("func ok(", "func ok2(")},
                             "rewrite error inside a list, before files where the change applies"))
    # one directory, two packages (a package and its external tests), patches guarded by a package clause: what a file's
    # neighbours are called or contain does not decide about it
    for gi, (pk, first) in enumerate((("store_test", "a_"), ("store_test", "z_"), ("store", "a_"), ("store", "z_"))):
        gp = f"@@\nvar x expression\n@@\n package {pk}\n\n-setup(x)\n+setupT(x)\n"
        other = "store" if pk == "store_test" else "store_test"
        files = {f"s/{first}other.go": f"package {other}\n\nfunc f() {{ setup(1) }}\n",
                 f"s/m_wanted.go": f"package {pk}\n\nfunc g() {{ setup(2) }}\n",
                 f"s/{'z_' if first == 'a_' else 'a_'}more.go": f"package {other}\n\nfunc h() {{ setup(3) }}\n",
                 "t/only.go": f"package {pk}\n\nfunc k() {{ setup(4) }}\n"}
        scen.append(Scenario(f"twopkg{gi}", [gp], files, "two packages in one directory, package-guarded patch"))
        scen.append(Scenario(f"twopkg{gi}b", [gp, "@@\nvar x expression\n@@\n package " + other + "\n\n-setup(x)\n+setupO(x)\n"], files,
                             "two packages in one directory, one guarded patch for each"))
    # a cgo file, a generated file and a file with a byte order mark in front of files whose result depends on how imports are
    # formatted afterwards: what one file is says nothing about how the next one is treated
    imp_patch = "@@\nvar x expression\n@@\n+import \"go.uber.org/thriftrw/ptr\"\n\n-toPtr(x)\n+ptr.String(x)\n"
    cgo_src = "package a\n\n/*\n#include <stdio.h>\n*/\nimport \"C\"\n\nfunc c() { C.puts(nil) }\n"
    for k, first in enumerate((cgo_src, cgo_src.replace("func c() { C.puts(nil) }", "func c() { C.puts(nil); toPtr(\"c\") }"),
                               "// Code generated by x. DO NOT EDIT.\n\npackage a\n\nfunc g() { toPtr(\"g\") }\n",
                               "\ufeffpackage a\n\nfunc bom() { toPtr(\"b\") }\n")):
        scen.append(Scenario(f"sticky{k}", [imp_patch],
                             {"a_first.go": first,
                              "b.go": "package a\n\nimport (\n\t\"fmt\"\n\t\"os\"\n)\n\nfunc b() { fmt.Println(toPtr(os.Args[0])) }\n",
                              "c.go": "package a\n\nimport \"strings\"\n\nfunc c2() *string { return toPtr(strings.ToUpper(\"x\")) }\n"},
                             "a special file first, import edits after it"))
    # files that do not parse, few or many, with few or very many syntax errors each, before / between / after files that are
    # patched: how broken a neighbour is says nothing about the next file
    for k, (nbad, content) in enumerate(((1, MANY_ERRORS), (12, UNPARSEABLE), (3, MANY_ERRORS), (40, "package bad\n\nfunc (\n"))):
        for pos, pref in enumerate(("0", "m", "zz")):
            files = {f"{pref}_tmpl{j:02d}.go": content for j in range(nbad)}
            files.update({nm: good.replace("ok()", f"ok{j}()") for j, nm in enumerate(("a_good.go", "n_good.go", "z/good.go", "zzz_good.go"))})
            scen.append(Scenario(f"broken{k}_{pos}", [MISFIT[0][0]], files, "many syntax errors in the neighbours"))
    # files whose results are several KiB each, with the log of -v on the same stream: what is printed for a file is printed
    # whole, whatever was printed before it
    bigf = lambda tag, n_: "package a\n" + "".join(f"\nfunc {tag}{i}(count int) int {{\n\treturn foo(count + {i}) // {tag}\n}}\n" for i in range(n_))
    for k, sizes in enumerate(((30, 45, 28), (70, 3, 70, 5), (12, 13, 14, 15, 16, 17))):
        scen.append(Scenario(f"large-verbose{k}", [MISFIT[1][0]], {f"{chr(97 + j)}_large.go": bigf(chr(97 + j), n_) for j, n_ in enumerate(sizes)},
                             "several KiB of results per file"))
    scen += corpus_scenarios("C14")
    optsets = [["print"], ["diff"], [], ["print", "sg"], ["si"], ["print", "si"], ["print", "v"], ["diff", "v"]]
    def one(sc):
        out = []
        root, pargs = setup_scenario(ctx, sc)
        rels = sorted(sc.files)
        for k, opts in enumerate(optsets):
            work = root
            if not ("diff" in opts or "print" in opts):
                work = f"{root}-w{k}"
                shutil.copytree(root, work, symlinks=True)
                ctx.scratch_dirs.append(work)
            infos = classify_all(ctx, work, pargs, rels, opts)
            if any(i["apply"][0] == "unknown" for i in infos):
                continue
            # argument lists: explicit files in random order with repeats, dirs, ./...
            r2 = random.Random(hash((sc.id, k, ctx.seed)) & 0xffffffff)
            shuffled = rels[:]
            r2.shuffle(shuffled)
            targs = r2.choice([["."], ["./..."], shuffled, shuffled + shuffled[:1], list(reversed(rels)), ["a", "."] if any(r.startswith("a/") for r in rels) else ["."]])
            # `provided` differs with how the file was named; predictions use paths relative to cwd, which is what
            # filepath.Rel(cwd, abs) yields for every form above
            pred = cl.model_predict(ctx.driver, [(sc.id, opts, infos)]).get(sc.id)
            obs = observe(ctx, work, pargs, opts, targs)
            # determinism: same command again on a fresh copy
            out.append((sc, opts, infos, pred, obs, work, targs))
        return out
    with ThreadPoolExecutor(max_workers=8) as ex:
        res = list(ex.map(one, scen))
    for runs in res:
        for sc, opts, infos, pred, obs, work, targs in runs:
            ctx.evaluations += 1
            ctx.count("args:" + ("dir" if targs in (["."], ["./..."]) else "files"))
            if any(i["apply"][0] != "nomatch" or not i["parses"] for i in infos):
                ctx.nontrivial.add(sc.id + "|" + "+".join(opts) + "|" + " ".join(targs))
            if len(ctx.samples) < 3:
                ctx.sample({"scenario": sc.id, "note": sc.note, "flags": opts, "args": targs, "files": sorted(sc.files),
                            "outcomes": {i["provided"]: i["apply"][0] for i in infos}})
            probs = compare_run(work, opts, infos, pred, obs)
            found = probs["write"] + probs["stdout"] + probs["desc"] + probs["unmatched"]
            if found:
                ctx.violation("grouped run differs from the solo runs of its files: " + "; ".join(found[:3]), {
                    "input": {"patches": sc.patches, "files": sc.files, "flags": flags_of(opts), "args": targs},
                    "observed": {"exit": obs["exit"], "stderr": obs["stderr"][-1500:]}, "problems": found})
    c14_repeat(ctx)
    library_reuse_family(ctx, "C14: a parsed patch is immutable")
    # the same files named in several forms, through excluded directories, in different orders
    arg_forms_family(ctx, "a file's result depends on how and where it was named among the arguments")
    # the same concurrent calls under the Go race detector: a parsed patch that is written to while it is applied
    # (a memo table in a matcher, a slice of the patch reused as scratch space) is a data race even when the results agree
    rh = common.build_race_harness()
    if rh is None:
        ctx.count("race_harness_unavailable")
    else:
        d = ctx.scratch("race")
        pth = os.path.join(d, "in.jsonl")
        sample = [c for c in cases if len(c.get("patches", [])) == 1][: (60 if ctx.tier == "quick" else 1200)]
        with open(pth, "w") as f:
            for c in sample:
                f.write(json.dumps(c) + "\n")
        r = run([rh, "api", "-inputs", pth, "-rep", "1", "-conc", "8"], timeout=1800,
                env=dict(os.environ, GORACE="halt_on_error=0 history_size=2"))
        ctx.evaluations += len(sample)
        ctx.count("race_detector_cases", len(sample))
        if "WARNING: DATA RACE" in r.stderr:
            first = r.stderr[r.stderr.index("WARNING: DATA RACE"):][:1800]
            ctx.violation("data race while one parsed patch is applied from several goroutines: " +
                          " / ".join(l.strip() for l in first.split("\n")[1:6]),
                          {"input": {"cases": [c["id"] for c in sample][:10], "how": "zzverif-race api -conc 8 (go build -race)"}, "report": first})
        elif r.returncode != 0:
            ctx.broken("harness", "race-detector run of the api stream failed: " + r.stderr[-800:])
    # library API: repeated and concurrent Apply on one parsed patch
    outs = run_api(ctx, cases[: (150 if ctx.tier == "quick" else 2000)], rep=3, conc=8)
    byid = {c["id"]: c for c in cases}
    for o in outs:
        ctx.evaluations += 1
        if o.get("parse_err"):
            continue
        ctx.count("api_cases")
        if not o["repeat_same"] or not o["conc_same"]:
            c = byid[o["id"]]
            ctx.violation(f"Apply is not repeatable (sequential same={o['repeat_same']}, concurrent same={o['conc_same']})",
                          {"input": {"patches": c["patches"], "src": c["src"]}})
        if o.get("held_same") is False:
            c = byid[o["id"]]
            ctx.violation("the bytes an Apply call returned changed while the same parsed patch was applied to other sources: each call's result "
                          "is its own", {"input": {"patches": c["patches"], "src": c["src"]},
                                         "reproduce": "f, _ := patch.Parse(..); a, _ := f.Apply(\"a.go\", src); f.Apply(\"b.go\", other); a is no longer what it was"})

# --- the library with one parsed patch reused over a sequence of sources (shared by C06, C07, C08, C14, C16) ------------
REPLACE_ERR = ("@@\nvar x expression\n@@\n-foo(x)\n+bar.x\n", "package a\n\nfunc f() {\n\tfoo(g(1))\n}\n")
LIST_REPLACE_ERR = [
    ("@@\nvar x expression\n@@\n-legacy.Lookup(x)\n+metrics.Inc()\n+registry.x()\n",
     "package a\n\nfunc bad() {\n\tsetupA()\n\tlegacy.Lookup(\"name\")\n\tteardownA()\n}\n",
     "package a\n\nfunc ok() {\n\tsetupB()\n\tlegacy.Lookup(counter)\n\tteardownB()\n}\n"),
    ("@@\nvar x expression\n@@\n-call(first(), ..., x)\n+call(..., second(), obj.x)\n",
     "package a\n\nfunc bad() {\n\tcall(first(), a1, a2, f())\n}\n",
     "package a\n\nfunc ok() {\n\tcall(first(), b1, name)\n}\n"),
    ("@@\nvar x expression\n@@\n func f() {\n   ...\n-  old(x)\n+  fresh()\n+  goto x\n }\n",
     "package a\n\nfunc f() {\n\tprepA()\n\told(1 + 2)\n}\n",
     "package a\n\nfunc f() {\n\tprepB()\n\told(done)\ndone:\n}\n".replace("\told(done)\ndone:\n", "\told(done)\n")),
]
REUSE_SEQS = [
    # (patch, sources): sources that are rewritten, that make the replacement fail, that the patch does not match, again
    (REPLACE_ERR[0], ["package a\n\nfunc ok() { foo(name) }\n", REPLACE_ERR[1], "package a\n\nfunc un() { zzz(1) }\n",
                      "package a\n\nfunc ok() { foo(name) }\n", REPLACE_ERR[1], "package q\n", "package a\n\nfunc ok2() { foo(other) }\n"]),
    (MISFIT[0][0], ["package a\n\nfunc ok() {\n\tz := foo(2)\n\t_ = z\n}\n", MISFIT[0][1], "package a\n\nfunc un() { zzz(1) }\n",
                    MISFIT[0][1], "package a\n\nfunc ok() {\n\tz := foo(2)\n\t_ = z\n}\n"]),
    ("@@\n@@\n-foo(...)\n+bar = ...\n", ["package a\n\nfunc f() {\n\tfoo(1)\n}\n", "package a\n\nfunc f() {\n\tfoo()\n}\n",
                                         "package a\n\nfunc un() { zzz(1) }\n", "package a\n\nfunc f() {\n\tfoo(1)\n}\n"]),
    ("@@\nvar x expression\n@@\n-isZero(x)\n+x == T{}\n", ["package a\n\nfunc f() bool { return isZero(y) }\n",
                                                           "package a\n\nfunc f() {\n\tif isZero(y) {\n\t}\n}\n",
                                                           "package a\n\nfunc f() {\n\tif isZero(y) {\n\t}\n}\n", "package a\n\nfunc un() { zzz(1) }\n"]),
    ("@@\nvar x expression\n@@\n-foo(x)\n+bar(x)\n", ["package a\n\nfunc f() { foo(1) }\n", "package a\n\nfunc {\n", "package a\n\nfunc un() { zzz(1) }\n",
                                                      "// Code generated by x. DO NOT EDIT.\n\npackage a\n\nfunc g() { foo(2) }\n",
                                                      "// Package a.\n// @generated\npackage a\n\nfunc h() { foo(3) }\n", "package a\n\nfunc f() { foo(1) }\n"]),
]

def library_reuse_family(ctx, clause):
    """one parsed patch applied to a sequence of sources (each twice in a row) against a freshly parsed patch for every call:
    what a call returns (bytes, error or not, which file the error names) does not depend on the calls before it, and every
    call returns"""
    d = ctx.scratch("apiseq")
    pth = os.path.join(d, "in.jsonl")
    with open(pth, "w") as f:
        for k, (p, srcs) in enumerate(REUSE_SEQS):
            f.write(json.dumps({"id": f"seq{k}", "patch": p, "srcs": srcs}) + "\n")
    r = run([ctx.harness, "apiseq", "-inputs", pth], timeout=600)
    if r.returncode != 0:
        ctx.broken("harness", "zzverif apiseq failed: " + r.stderr[-1500:])
        return
    for line in r.stdout.splitlines():
        o = json.loads(line)
        k = int(o["id"][3:])
        p, srcs = REUSE_SEQS[k]
        ctx.evaluations += 1
        ctx.count("library_reuse_sequences")
        ctx.nontrivial.add("reuse:" + o["id"])
        if o.get("hang"):
            ctx.violation(f"library: a call of Apply on a parsed patch that was used before did not return within 10 s ({clause})",
                          {"input": {"patch": p, "sources": srcs}, "reproduce": "f, _ := patch.Parse(..); for each source: f.Apply(name, src) twice"})
            continue
        if o.get("parse_err"):
            continue
        def cls(st):
            return ("panic" if st.get("panic") else "err" if st.get("err") else "ok", st.get("out", ""))
        for j, src in enumerate(srcs):
            fresh = o["fresh"][j] if j < len(o.get("fresh", [])) else {}
            for rep in (0, 1):
                idx = 2 * j + rep
                sh = o["shared"][idx] if idx < len(o.get("shared", [])) else {}
                bad = None
                if cls(sh) != cls(fresh):
                    bad = f"call {idx + 1} (source {j + 1}{', again' if rep else ''}) returns {cls(sh)[0]} / {sh.get('out', '')[:60]!r}, a freshly parsed patch {cls(fresh)[0]} / {fresh.get('out', '')[:60]!r}"
                elif sh.get("err") and f"s{j}.go" not in sh["err"] and f"s{j}.go" in fresh.get("err", ""):
                    bad = f"call {idx + 1}: the error does not name its own file: {sh['err'][:160]!r}"
                elif sh.get("err") and any(f"s{m}.go" in sh["err"] for m in range(len(srcs)) if m != j):
                    bad = f"call {idx + 1}: the error names another call's file: {sh['err'][:160]!r}"
                if bad:
                    ctx.violation(f"library: the result of Apply depends on earlier calls on the same parsed patch: {bad} ({clause})",
                                  {"input": {"patch": p, "sources": srcs}, "shared": o["shared"], "fresh": o["fresh"],
                                   "reproduce": "f, _ := patch.Parse(..); for each source: f.Apply(name, src) twice; compare with a new Parse per call"})
                    break
            else:
                continue
            break

# --- constants of the source read again on every run (a regenerated tie for numbers and strings that inputs rarely reach) ---
FACTS = [
    # (properties, what, Go file, regex with one group per value, Lean file, regex with the same groups)
    (("C17",), "look-ahead of the list alignment", "internal/astdiff/diff.go", r"const lookahead = (\d+)",
     "lean/GopatchModel/AstDiff.lean", r"def lookahead : Nat := (\d+)"),
    (("C17",), "search budget of diff.Difference", "internal/diff/diff.go", r"searchBudget := (\d+) \* \(nx \+ ny\)",
     "lean/GopatchModel/AstDiff.lean", r"budget := (\d+) \* \(nx \+ ny\)"),
    (("C17",), "similarity threshold", "internal/diff/diff.go", r"return r\.NumSame\+(\d+) >= r\.NumDiff",
     "lean/GopatchModel/AstDiff.lean", r"def Res\.similar \(r : Res\) : Bool := r\.same \+ (\d+) ≥ r\.diff"),
    (("C17",), "penalty for values of different types", "internal/astdiff/diff.go", r"c\.NumDiff \+= (\d+) // not equal or similar",
     "lean/GopatchModel/AstDiff.lean", r"if ty != to\.ty then \{ diff := (\d+) \}"),
    (("C15",), "directories the walk skips", "main.go", r'base\[0\] == \'(.)\',\s*base\[0\] == \'(.)\',\s*base == "(\w+)",\s*base == "(\w+)":',
     "lean/GopatchModel/Walk.lean", r"startsWithChar name '(.)' \|\| startsWithChar name '(.)' \|\|\s*name == \"(\w+)\" \|\| name == \"(\w+)\""),
    (("C18",), "marker looked for in the package comment", "main.go", r'strings\.Contains\(comm\.Text, "([^"]+)"\)',
     "lean/GopatchModel/Generated.lean", r'containsSub c\.text "([^"]+)"'),
]

def facts_tie(ctx):
    """values the Lean model has in common with the source, read from both texts: a number or string the implementation was
    changed to is reported even when no generated input happens to depend on it; a fact that can no longer be found in the
    source (the code was reorganised) is only counted"""
    for props_, what, gofile, gore, leanfile, leanre in FACTS:
        if ctx.pid not in props_:
            continue
        try:
            gsrc = open(os.path.join(REPO, gofile)).read()
            lsrc = open(os.path.join(VERIF, leanfile)).read()
        except OSError:
            ctx.count("facts_unreadable")
            continue
        gm, lm = re.search(gore, gsrc), re.search(leanre, lsrc)
        ctx.evaluations += 1
        if lm is None:
            ctx.broken("facts", f"the model's own constant for '{what}' was not found in {leanfile}")
        elif gm is None:
            ctx.count("facts_not_found_in_source")
        elif gm.groups() != lm.groups():
            ctx.count("facts_differ")
            ctx.broken("correspondence", f"{what}: the source ({gofile}) has {gm.groups()}, the model ({leanfile}) has {lm.groups()}")
        else:
            ctx.count("facts_agree")

# --- argument forms (shared by C12 and C14) ----------------------------------
ARGFORM_TREE = {"a.go": "f", "sub": {"b.go": "f", ".hid": {"f.go": "f"}}, "testdata": {"c.go": "f", "cases": {"g.go": "f"}},
                "vendor": {"dep": {"d.go": "f"}}, "_gen": {"e.go": "f"}, "notes.txt": "f",
                "api": ("l", "sub"), "alias.go": ("l", "a.go")}      # a link to a directory, a link to a file: entries of their own
ARGFORM_ARGS = [[".", "$ROOT"], ["$ROOT", "."], ["./...", "testdata/c.go", "vendor/dep/d.go"], ["testdata/c.go", "./..."],
                [".", "_gen/e.go", "sub/.hid/f.go"], ["$ROOT/sub", "sub/b.go", "./sub/..."], ["./...", "./testdata/cases/..."],
                ["sub", "$ROOT/sub/b.go", "a.go", "./a.go"], ["$ROOT/...", "sub/..", "testdata/cases/g.go"], ["a.go", "a.go", "$ROOT/a.go"],
                # links as arguments next to arguments that reach what they point to
                ["./...", "api"], ["api", "./..."], ["sub", "api"], ["api"], ["alias.go", "a.go"], ["$ROOT/api", "sub/b.go", "$ROOT/alias.go"],
                ["api/...", "."]]

def arg_forms_family(ctx, what):
    """One small tree, a patch that is not idempotent (a file processed twice shows), argument lists that name the
    same files in several forms / through excluded directories / in different orders.  Which files are processed
    comes from the Lean walk model; what each file becomes comes from a run on that file alone."""
    patch = "# wrap the argument\n@@\nvar x expression\n@@\n-foo(x)\n+foo(wrap(x))\n"
    base = ctx.scratch("argforms")
    os.chmod(base, 0o755)
    base_comps = [c for c in base.split("/") if c]
    def src_of(rel):
        return f"package x\n\nfunc {re.sub(r'[^a-z]', '', rel)}() {{\n\tfoo({len(rel)})\n}}\n"
    def build(root):
        materialize(root, ARGFORM_TREE)
        for pth, v in all_paths(ARGFORM_TREE):
            if v == "f" and pth.endswith(".go"):
                with open(os.path.join(root, pth), "w") as f:
                    f.write(src_of(pth))
        with open(os.path.join(root, "p.patch"), "w") as f:
            f.write(patch)
    gofiles = [pth for pth, v in all_paths(ARGFORM_TREE) if v == "f" and pth.endswith(".go")]
    # solo results
    solo_root = os.path.join(base, "solo")
    build(solo_root)
    solo = {}
    for rel in gofiles:
        code, out, err = cl.gopatch(ctx.gopatch, solo_root, ["-p", "p.patch", "--print-only", rel])
        solo[rel] = out.decode()
    # model: processed lists
    lines = []
    for k, args in enumerate(ARGFORM_ARGS):
        cwd_name = f"w{k}"
        root = os.path.join(base, cwd_name)
        real = [a.replace("$ROOT", root) for a in args]
        t = dict(ARGFORM_TREE, **{"p.patch": "f"})
        node = tree_sx(cwd_name, t)
        for c in reversed(base_comps):
            node = f"(d {cl.sx_quote(c)} {node})"
        node = f'(d "" {node})'
        cwd = " ".join(cl.sx_quote(c) for c in base_comps + [cwd_name])
        lines.append(f'(case w{k} walk (cwd {cwd}) (args {" ".join(cl.sx_quote(a) for a in real)}) (tree {node}))')
    r = subprocess.run([ctx.driver], input="\n".join(lines) + "\n", stdout=subprocess.PIPE, stderr=subprocess.PIPE, text=True)
    model = {}
    for l in r.stdout.splitlines():
        sx = parse_sx(l)
        if sx and sx[0] == "res":
            fl = common.sx_field(sx[2:], "files")
            model[sx[1]] = None if fl is None else [cl.sx_unquote(x) for x in fl]
    for k, args in enumerate(ARGFORM_ARGS):
        want_abs = model.get(f"w{k}")
        if want_abs is None:
            ctx.broken("driver", f"argument forms: no model answer for {args}")
            continue
        for mode in ([], ["--print-only"], ["--diff"]):
            root = os.path.join(base, f"w{k}")
            shutil.rmtree(root, ignore_errors=True)
            build(root)
            real = [a.replace("$ROOT", root) for a in args]
            want = [w[len(root) + 1:] for w in want_abs]
            code, out, err = cl.gopatch(ctx.gopatch, root, ["-p", "p.patch"] + mode + real)
            ctx.evaluations += 1
            ctx.nontrivial.add("argforms:" + " ".join(args) + "|" + " ".join(mode))
            ctx.count("argforms:" + (mode[0] if mode else "in-place"))
            so, se = out.decode("utf-8", "replace"), err.decode("utf-8", "replace")
            probs = []
            if code != 0:
                probs.append(f"exit {code}: {se.strip()[:200]}")
            after = {rel: open(os.path.join(root, rel)).read() for rel in gofiles}
            if not mode:
                for rel in gofiles:
                    exp = solo[rel] if rel in want else src_of(rel)
                    if after[rel] != exp:
                        probs.append(f"{rel}: written bytes differ from the result of processing it alone once" if rel in want
                                     else f"{rel}: not among the requested files but modified")
            else:
                for rel in gofiles:
                    if after[rel] != src_of(rel):
                        probs.append(f"{rel}: modified by a dry run")
                if mode == ["--print-only"]:
                    if so != "".join(solo[rel] for rel in want):
                        probs.append("printed bytes differ from the per-file results of the requested files, each once, in path order")
                else:
                    chunks = split_diff(so)
                    nhdr = sum(1 for l in so.split("\n") if l.startswith("--- "))
                    if nhdr != len(want):
                        probs.append(f"{nhdr} diffs printed for {len(want)} requested files")
                    for name, chunk in chunks.items():
                        rel = name[len(root) + 1:] if name.startswith(root + "/") else os.path.normpath(name)
                        if rel in solo and cl.apply_unified_diff(src_of(rel), chunk) not in (solo[rel], solo[rel].rstrip("\n")):
                            probs.append(f"{rel}: the printed diff does not produce the bytes written in place")
                ndesc = sum(1 for l in se.split("\n") if l.endswith("wrap the argument"))
                if ndesc != len(want):
                    probs.append(f"{ndesc} descriptions on stderr for {len(want)} patched files")
            if probs:
                ctx.violation(f"{what}: arguments {args} {' '.join(mode) or '(in place)'}: " + "; ".join(probs[:3]),
                              {"input": {"patch": patch, "tree": sorted(gofiles), "args": args, "flags": mode}, "problems": probs,
                               "requested_files": want, "stderr": se[-600:],
                               "reproduce": "create the tree (each .go file: package x; func f() { foo(N) }), cd into it ($ROOT = its absolute path), gopatch -p p.patch <flags> <args>"})

# --- C16 -------------------------------------------------------------------

@signature("write-fault")
def sig_write_fault(sig, what, payload):
    return payload.get("fault") == "fsize" and "partial" in what

FAILSTEP = {"good1": "@@\nvar x expression\n@@\n-foo(x)\n+bar(x)\n", "bad": "@@\nvar x expression\n@@\n-baz(x)\n+qux.x\n",
            "good2": "@@\n@@\n-quux(1)\n+quuz(1)\n", "bad2": "@@\nvar x expression\n@@\n-quux(1)\n+quux(x)\n"}
FAILSTEP_SRC = "package a\n\nfunc f() {\n\tfoo(1)\n\tbaz(g(1))\n\tquux(1)\n}\n"
FAILSTEP_ORDERS = [("bad", "good1"), ("good1", "bad"), ("good1", "bad", "good2"), ("bad2", "good1"), ("bad",)]

@prop("C16")
def c16(ctx):
    ctx.level = "proof"
    unwritable_target_family(ctx, "C16")
    crashing_rewrite_family(ctx, "C16")
    # a patch source that cannot be loaded is a failure of the run: reported, non-zero exit, nothing rewritten (loader model)
    loader_tie(ctx, n_quick=40, n_thorough=800)
    ctx.rule = CLI_RULE + (" For this property failures are enumerated: a file that does not parse / whose rewrite fails / whose result "
                           "is not valid Go, at the first, middle and last position of a 3..5 file run; a missing path argument; a missing "
                           "patch file; a patches-file naming a missing patch; an unreadable target (run as uid 65534); a target whose temporary "
                           "sibling cannot be created (250-byte name; read-only directory with a writable file, as uid 65534) with a patch "
                           "that shrinks the file; a write cut short by RLIMIT_FSIZE at several byte counts; the system calls of the write protocol "
                           "(write, fchmod, close, renameat, unlinkat) made to fail one at a time with strace fault injection, incl. an interrupted "
                           "write; stdout full; and the library keeping results across calls.")
    rng = random.Random(ctx.seed)
    cases = gen_cases(ctx, "mix", 120 if ctx.tier == "quick" else 1500, ctx.seed)
    good = matching_cases(ctx, cases, 4 if ctx.tier == "quick" else 40, rng)
    scen = []
    for gi, base in enumerate(good):
        for pos, nm in enumerate(["0first.go", "m/middle.go", "zlast.go"]):
            for kind, content in (("unparseable", UNPARSEABLE), ("many-errors", MANY_ERRORS), ("empty", ""), ("no-package-clause", "func orphan() {}\n"),
                                  ("template", "{{ .Header }}\npackage {{ .Name }}\n")):
                files = {"b.go": base["src"], "m/n.go": base["src"], "y.go": rng.choice(ODD_UNMATCHED)}
                files[nm] = content
                scen.append(Scenario(f"g{gi}-{kind}-{pos}", base["patches"], files, f"{kind} at {nm}"))
    # rewrite error and unparseable result at each position
    for pos, nm in enumerate(["0first.go", "m/middle.go", "zlast.go"]):
        files = {"b.go": "package a\n\nfunc ok() {\n\tfoo(1)\n}\n", "m/n.go": "package a\n\nfunc ok2() { foo(2) }\n"}
        files[nm] = REPLACE_ERR[1]
        scen.append(Scenario(f"replaceerr-{pos}", [REPLACE_ERR[0]], files, f"rewrite error at {nm}"))
        # rewrites that fail half way through a list (statements already generated, elided runs already copied): what the next
        # file gets is its own result
        for lk, (lp, lbad, lgood) in enumerate(LIST_REPLACE_ERR):
            files = {"b.go": lgood, "m/n.go": lgood.replace("func ok(", "func ok2("), "q.go": "package a\n\nfunc un() { zzz() }\n"}
            files[nm] = lbad
            scen.append(Scenario(f"listerr{lk}-{pos}", [lp], files, f"rewrite error inside a list at {nm}"))
        files = {"b.go": "package a\n\nfunc ok() {\n\tz := foo(1)\n\t_ = z\n}\n", "m/n.go": "package a\n\nfunc ok2() { _ = foo(2) }\n"}
        files[nm] = MISFIT[0][1]
        scen.append(Scenario(f"misfit-{pos}", [MISFIT[0][0]], files, f"unparseable result at {nm}"))
    # a failing change among changes that succeed on the same file (in one patch file and as separate patches)
    for oi, order in enumerate(FAILSTEP_ORDERS):
        for joined in (True, False):
            texts = [FAILSTEP[k] for k in order]
            patches = ["\n".join(texts)] if joined else texts
            scen.append(Scenario(f"failstep-{oi}-{int(joined)}", patches, {"a.go": FAILSTEP_SRC, "b.go": "package a\n\nfunc ok() {\n\tfoo(3)\n}\n"},
                                 "failing change among succeeding ones: " + ",".join(order)))
    def post(ctx, sc, opts, infos, pred, obs, work):
        out = []
        bad = [i for i in infos if (not i["parses"]) or i["apply"][0] in ("replaceerr", "formaterr")]
        if bad and obs["exit"] == 0:
            out.append("exit status 0 although a file could not be processed")
        for i in bad:
            if i["abs"] not in obs["stderr"] and i["provided"] not in obs["stderr"]:
                out.append(f"stderr does not name {i['provided']}")
        return out
    scen += corpus_scenarios("C16")
    run_scenarios(ctx, scen, [[], ["print"], ["diff"]], {"write", "stdout", "exit", "report", "unmatched"}, post)
    # a rewrite whose result is not valid Go (known from the table, not from the binary) is a failure under every combination of
    # flags: reported with the file's name, non-zero exit, nothing written or printed for that file
    for mi, (mp, ms) in enumerate([MISFIT[k] for k in (0, 3, 6, 8)]):     # those whose result go/parser rejects (a type name's literal in a header)
        for flags in ([], ["--skip-import-processing"], ["--skip-import-processing", "--print-only"], ["--skip-import-processing", "--diff"],
                      ["--print-only", "-v"], ["--diff", "--skip-generated"], ["--skip-import-processing", "--skip-generated", "-v"]):
            root = ctx.scratch("misfitflags")
            goodsrc = "package a\n\nfunc ok() {\n\tz := foo(7)\n\t_ = z\n}\n"
            cl.write_tree(root, {"bad.go": ms, "good.go": goodsrc, "p.patch": mp})
            before = open(os.path.join(root, "bad.go")).read()
            code, out, err = cl.gopatch(ctx.gopatch, root, ["-p", "p.patch"] + flags + ["bad.go", "good.go"])
            e, so = err.decode("utf-8", "replace"), out.decode("utf-8", "replace")
            ctx.evaluations += 1
            ctx.count("misfit_under_flags")
            ctx.nontrivial.add(f"misfitflags:{mi}:{' '.join(flags)}")
            probs = []
            if code == 0:
                probs.append("exit status 0")
            if "bad.go" not in e:
                probs.append("stderr does not name bad.go")
            if open(os.path.join(root, "bad.go")).read() != before:
                probs.append("bad.go was rewritten")
            if "--diff" in flags and "--- bad.go" in so:
                probs.append("a diff was printed for bad.go")
            if probs:
                ctx.violation(f"gopatch {' '.join(flags)} on a rewrite whose result is not valid Go: " + "; ".join(probs),
                              {"fault": "misfit-flags", "input": {"patches": [mp], "files": {"bad.go": ms, "good.go": goodsrc}, "flags": flags},
                               "stderr": e[-400:]})
            shutil.rmtree(root, ignore_errors=True)
    library_reuse_family(ctx, "C16: a failure is reported by the call it belongs to, and by no other")
    # the library: a program that computes the results for several files with one parsed patch and writes them afterwards must
    # not end up with a file made of two results (no error would tell it)
    lib_cases = [{"id": f"lib{i}", "patches": c["patches"], "src": c["src"]} for i, c in enumerate(good) if len(c.get("patches", [])) == 1]
    lib_cases += [{"id": "lib-noimp", "patches": ["@@\nvar x expression\n@@\n-foo(x)\n+barbaz(x, x)\n"], "src": "package a\n\nfunc f() {\n\tfoo(1)\n\tfoo(2)\n}\n"},
                  {"id": "lib-imp", "patches": ["@@\nvar x expression\n@@\n-foo(x)\n+barbaz(x, x)\n"], "src": "package a\n\nimport \"fmt\"\n\nfunc f() {\n\tfmt.Println(foo(1))\n}\n"}]
    for o in run_api(ctx, lib_cases, rep=1):
        ctx.evaluations += 1
        ctx.count("library_results_held")
        ctx.nontrivial.add("held:" + o["id"])
        if o.get("held_same") is False:
            c = [x for x in lib_cases if x["id"] == o["id"]][0]
            ctx.violation("library: the bytes returned by one Apply call changed while the same parsed patch was applied to other sources; a caller "
                          "that writes its results afterwards writes a mixture of two files, with no error", {"fault": "held-result", "input": c})
    # missing path / missing patch / patches-file naming a missing patch
    root = ctx.scratch("missing")
    cl.write_tree(root, {"a.go": "package a\n\nfunc f() { foo(1) }\n", "p.patch": "@@\n@@\n-foo(1)\n+bar(1)\n",
                         "list.txt": "p.patch\nnope.patch\n"})
    for args, must in ((["-p", "p.patch", "nonexist.go", "a.go"], ["nonexist.go", "no such file"]),
                       (["-p", "missing.patch", "a.go"], ["missing.patch", "no such file"]),
                       (["-P", "list.txt", "a.go"], ["nope.patch", "no such file"]),
                       (["-p", "p.patch", "a.go", "nodir/..."], ["nodir", "no such file"]),
                       (["-p", "p.patch", ".", "sub/missing.go"], ["missing.go", "no such file"]),
                       (["-p", "p.patch", "./...", "vendor/lib/missing.go"], ["missing.go", "no such file"]),
                       (["-p", "p.patch", ".", "./nodir"], ["nodir", "no such file"])):
        before = cl.digest(root)
        code, out, err = cl.gopatch(ctx.gopatch, root, args + ["--print-only"])
        ctx.evaluations += 1
        ctx.nontrivial.add("missing:" + " ".join(args))
        e = err.decode("utf-8", "replace")
        if code == 0 or not all(m in e for m in must):
            ctx.violation(f"gopatch {' '.join(args)}: exit {code}, stderr {e.strip()[:200]!r} does not name the path and the cause",
                          {"input": {"args": args, "files": {"a.go": "package a", "p.patch": "...", "list.txt": "p.patch\\nnope.patch"}}})
        if cl.digest(root) != before:
            ctx.violation(f"gopatch {' '.join(args)} --print-only modified the directory", {"input": {"args": args}})
    # system calls of the write protocol made to fail one at a time (strace fault injection): whatever fails, the target holds
    # its old bytes or its complete new bytes, the failure is reported with the file's name, later files are still processed
    if shutil.which("strace"):
        a0, b0 = "package a\n\nfunc f() { foo(1) }\n", "package a\n\nfunc g() {\n\tfoo(2)\n\tfoo(3)\n}\n"
        a1, b1 = a0.replace("foo(", "barbaz("), b0.replace("foo(", "barbaz(")
        # (strace counts calls per thread, so "the n-th call" may hit one file or the other: what is required does not depend on it)
        FAULTS = [(["write:error=ENOSPC:when=1"], "any"), (["write:error=EIO:when=1"], "any"), (["write:error=EINTR:when=1"], "none"),
                  (["fchmod:error=EPERM"], "all"), (["renameat:error=EXDEV"], "all"), (["renameat:error=EACCES"], "all"),
                  (["renameat:error=ENOSPC:when=2"], "any"), (["fchmod:error=EIO:when=2"], "any"), (["write:error=ENOSPC:when=2"], "any"),
                  (["unlinkat:error=EPERM", "renameat:error=EACCES"], "all-leftover"), (["close:error=EIO:when=3"], "any"), (["close:error=EIO:when=4"], "any")]
        probe = subprocess.run(["strace", "-f", "-o", "/dev/null", "-e", "trace=none", "true"], stdout=subprocess.PIPE, stderr=subprocess.PIPE)
        for specs, which in (FAULTS if probe.returncode == 0 else []):
            root = ctx.scratch("sysfault")
            cl.write_tree(root, {"a.go": a0, "b.go": b0, "p.patch": "@@\nvar x expression\n@@\n-foo(x)\n+barbaz(x)\n"})
            cmd = ["strace", "-f", "-o", "/dev/null"] + [x for sp in specs for x in ("-e", "inject=" + sp)] + [ctx.gopatch, "-p", "p.patch", "a.go", "b.go"]
            r = subprocess.run(cmd, cwd=root, stdout=subprocess.PIPE, stderr=subprocess.PIPE, timeout=120, env=dict(os.environ, GOMAXPROCS="1"))
            e = r.stderr.decode("utf-8", "replace")
            ga, gb = open(os.path.join(root, "a.go")).read(), open(os.path.join(root, "b.go")).read()
            left = [n for n in os.listdir(root) if n.endswith(".tmp")]
            ctx.evaluations += 1
            ctx.count("syscall_faults")
            ctx.nontrivial.add("sysfault:" + ",".join(specs))
            probs = []
            kept = 0
            # a fault injected into write(2) can hit the write that carries the diagnostic as well (strace counts per thread):
            # a failing run whose stderr is empty altogether lost its message to the fault, not to gopatch
            stderr_lost = any(sp.startswith("write:") for sp in specs) and r.returncode != 0 and not e.strip()
            if stderr_lost:
                ctx.count("syscall_faults_that_hit_stderr")
            for nm, got, old_, new_ in (("a.go", ga, a0, a1), ("b.go", gb, b0, b1)):
                if got == old_:
                    kept += 1
                    if f'"{os.path.join(root, nm)}"' not in e and nm not in e and not stderr_lost:
                        probs.append(f"{nm} was not rewritten and stderr does not say so")
                elif got == new_:
                    if f"could not write \"{os.path.join(root, nm)}\"" in e:
                        probs.append(f"{nm} holds its new bytes but is reported as not written")
                else:
                    probs.append(f"{nm} holds neither its old nor its new bytes ({len(got)} bytes)")
            if (kept > 0) != (r.returncode != 0):
                probs.append(f"exit status {r.returncode} with {kept} file(s) not rewritten")
            if which in ("all", "all-leftover") and kept != 2:
                probs.append("a step of the write protocol that fails for every file left a file rewritten")
            if which == "none" and (kept or e.strip()):
                probs.append(f"an interrupted write (EINTR) is retried by the runtime; exit {r.returncode}, stderr {e.strip()[:120]!r}")
            if left and which != "all-leftover":
                probs.append(f"temporary files left behind: {left}")
            if probs:
                ctx.violation("; ".join(probs[:3]), {"fault": "syscall:" + ",".join(specs), "input": {"run": " ".join(cmd[:-4]) + " gopatch -p p.patch a.go b.go"},
                                                      "stderr": e[-600:]})
            shutil.rmtree(root, ignore_errors=True)
    # the patched bytes cannot be delivered: stdout is full (--print-only and --diff write there)
    if os.path.exists("/dev/full"):
        root = ctx.scratch("fullout")
        cl.write_tree(root, {"a.go": "package a\n\nfunc f() { foo(1) }\n", "b.go": "package a\n\nfunc g() {\n" + "\tfoo(2)\n" * 900 + "}\n",
                             "p.patch": "@@\nvar x expression\n@@\n-foo(x)\n+bar(x)\n"})
        for mode in (["--print-only"], ["--diff"], ["--print-only", "-v"]):
            for target in (["a.go"], ["b.go"], ["a.go", "b.go"]):
                before = cl.digest(root)
                with open("/dev/full", "wb") as full:
                    r = subprocess.run([ctx.gopatch, "-p", "p.patch"] + mode + target, cwd=root, stdout=full, stderr=subprocess.PIPE, timeout=180)
                e = r.stderr.decode("utf-8", "replace")
                ctx.evaluations += 1
                ctx.nontrivial.add("fullout:" + " ".join(mode + target))
                ctx.count("stdout_full")
                if r.returncode == 0 or not e.strip() or cl.digest(root) != before:
                    ctx.violation(f"gopatch -p p.patch {' '.join(mode + target)} > /dev/full: exit {r.returncode}, stderr {e.strip()[:200]!r}: the output "
                                  "could not be written, which must be reported (non-zero exit, a diagnostic), the files untouched",
                                  {"fault": "stdout-full", "input": {"args": mode + target, "stdout": "/dev/full"}})
    # unreadable target, as an unprivileged user
    if os.geteuid() == 0 and shutil.which("setpriv"):
        root = ctx.scratch("unread")
        os.chmod(root, 0o755)
        cl.write_tree(root, {"a.go": UNPARSEABLE, "b.go": "package a\n\nfunc f() { foo(2) }\n", "c.go": "package a\n\nfunc f() { foo(3) }\n",
                             "p.patch": "@@\nvar x expression\n@@\n-foo(x)\n+bar(x)\n"})
        for n in os.listdir(root):
            os.chmod(os.path.join(root, n), 0o644)
        os.chmod(os.path.join(root, "b.go"), 0)
        binp = os.path.join(root, "gopatch.bin")
        shutil.copy(ctx.gopatch, binp)
        os.chmod(binp, 0o755)
        code, out, err = cl.gopatch(binp, root, ["-p", "p.patch", "--print-only", "."],
                                    prefix=["setpriv", "--reuid=65534", "--regid=65534", "--clear-groups"])
        ctx.evaluations += 1
        ctx.nontrivial.add("unreadable")
        e = err.decode("utf-8", "replace")
        so = out.decode("utf-8", "replace")
        if not (code != 0 and "b.go" in e and "a.go" in e and "bar(3)" in so):
            ctx.violation("unreadable target: the run must report a.go (parse) and b.go (permission), still patch c.go, and exit non-zero; "
                          f"got exit {code}, stderr {e.strip()[:300]!r}, stdout has bar(3)={('bar(3)' in so)}",
                          {"input": {"files": ["a.go unparseable", "b.go mode 000", "c.go foo(3)"], "run": "setpriv --reuid=65534 gopatch -p p.patch --print-only ."}})
    # a write that fails in the middle of a run with other failures before it and work after it
    if shutil.which("prlimit"):
        root = ctx.scratch("fsize-multi")
        big = "package a\n\nfunc big() {\n" + "".join(f"\tfoo({i})\n" for i in range(600)) + "}\n"
        small = "package a\n\nfunc small() { foo(1) }\n"
        cl.write_tree(root, {"src/a_broken.go": UNPARSEABLE, "src/b_big.go": big, "src/c_small.go": small, "src/m_rewrite.go": REPLACE_ERR[1].replace("foo(g(1))", "qux(g(1))"),
                             "p.patch": "@@\nvar x expression\n@@\n-foo(x)\n+barbaz(x)\n\n@@\nvar x expression\n@@\n-qux(x)\n+bar.x\n"})
        code, out, err = cl.gopatch(ctx.gopatch, root, ["-p", "p.patch", "src"], prefix=["prlimit", "--fsize=2048"])
        e = err.decode("utf-8", "replace")
        ctx.evaluations += 1
        ctx.nontrivial.add("fsize-multi")
        got = {n: open(os.path.join(root, "src", n)).read() for n in ("a_broken.go", "b_big.go", "c_small.go", "m_rewrite.go")}
        probs = []
        if code == 0:
            probs.append("exit status 0 although three files could not be processed")
        for n in ("a_broken.go", "b_big.go", "m_rewrite.go"):
            if n not in e:
                probs.append(f"stderr does not name {n}")
        if got["b_big.go"] != big:
            probs.append("b_big.go (write failed) does not hold its original bytes")
        if got["c_small.go"] != small.replace("foo(", "barbaz(") and "barbaz(1)" not in got["c_small.go"]:
            probs.append("c_small.go, processed after the failed write, was not patched")
        if probs:
            ctx.violation("; ".join(probs), {"fault": "fsize-multi", "input": {"files": ["src/a_broken.go (unparseable)", "src/b_big.go (600 calls, write exceeds the limit)", "src/c_small.go", "src/m_rewrite.go (rewrite error)"],
                                                                              "run": "prlimit --fsize=2048 gopatch -p p.patch src"}, "stderr": e[-800:]})
    # the temporary file next to the target cannot be created (name too long; read-only directory): with a patch that makes the
    # file shorter, any fallback that writes in place leaves the old tail behind the new content
    shrink_patch = "@@\nvar x expression\n@@\n-verylongfunctionname(x)\n+f(x)\n"
    shrink_src = "package a\n\nfunc g() {\n" + "".join(f"\tverylongfunctionname({i})\n" for i in range(40)) + "}\n"
    shrink_want = shrink_src.replace("verylongfunctionname(", "f(")
    def shrink_verdict(label, name, code, e, after, other_after):
        probs = []
        if after not in (shrink_src, shrink_want):
            probs.append(f"{label}: the target holds neither its original nor its complete patched bytes ({len(after)} bytes)")
        elif after == shrink_src and (code == 0 or name[:40] not in e):
            probs.append(f"{label}: the target was not patched but the exit status is {code} / stderr does not name it")
        if other_after != shrink_want:
            probs.append(f"{label}: the other file of the run was not patched")
        for pr in probs:
            ctx.violation(pr, {"fault": label, "input": {"patch": shrink_patch, "files": [name, "plain.go"]}, "exit": code if isinstance(code, int) else -1, "stderr": e[-400:]})
    longname = "x" * 247 + ".go"
    root = ctx.scratch("longname")
    cl.write_tree(root, {"d/" + longname: shrink_src, "d/plain.go": shrink_src, "p.patch": shrink_patch})
    code, out, err = cl.gopatch(ctx.gopatch, root, ["-p", "p.patch", "d"])
    ctx.evaluations += 1
    ctx.nontrivial.add("tmp-name-too-long")
    shrink_verdict("temporary name too long", longname, code, err.decode("utf-8", "replace"),
                   open(os.path.join(root, "d", longname)).read(), open(os.path.join(root, "d", "plain.go")).read())
    if os.geteuid() == 0 and shutil.which("setpriv"):
        root = ctx.scratch("rodir")
        os.chmod(root, 0o755)
        cl.write_tree(root, {"ro/a.go": shrink_src, "rw/plain.go": shrink_src, "p.patch": shrink_patch})
        binp = os.path.join(root, "gopatch.bin")
        shutil.copy(ctx.gopatch, binp)
        os.chmod(binp, 0o755)
        os.chmod(os.path.join(root, "p.patch"), 0o644)
        for dname, mode in (("ro", 0o555), ("rw", 0o777)):
            for n in os.listdir(os.path.join(root, dname)):
                os.chmod(os.path.join(root, dname, n), 0o666)
            os.chmod(os.path.join(root, dname), mode)
        code, out, err = cl.gopatch(binp, root, ["-p", "p.patch", "ro", "rw"], prefix=["setpriv", "--reuid=65534", "--regid=65534", "--clear-groups"])
        ctx.evaluations += 1
        ctx.nontrivial.add("read-only-directory")
        shrink_verdict("read-only directory, writable file", "ro/a.go", code, err.decode("utf-8", "replace"),
                       open(os.path.join(root, "ro", "a.go")).read(), open(os.path.join(root, "rw", "plain.go")).read())
        os.chmod(os.path.join(root, "ro"), 0o755)
    # write cut short
    if shutil.which("prlimit"):
        root = ctx.scratch("fsize")
        body = "package a\n\nfunc f() {\n" + "".join(f"\tfoo({i})\n" for i in range(400)) + "}\n"
        patch = "@@\nvar x expression\n@@\n-foo(x)\n+barbaz(x)\n"
        limits = [0, 1, 512, 4096] if ctx.tier == "quick" else [0, 1, 100, 512, 1024, 2048, 4096, 6000]
        for lim in limits:
            cl.write_tree(root, {"a.go": body, "p.patch": patch})
            code, out, err = cl.gopatch(ctx.gopatch, root, ["-p", "p.patch", "a.go"], prefix=["prlimit", f"--fsize={lim}"])
            after = open(os.path.join(root, "a.go"), "rb").read()
            ctx.evaluations += 1
            ctx.nontrivial.add(f"fsize:{lim}")
            patched = body.replace("foo(", "barbaz(").encode()
            if after not in (body.encode(), patched):
                ctx.violation(f"write cut short after {lim} bytes left a partial file ({len(after)} bytes, neither original nor patched)",
                              {"fault": "fsize", "limit": lim, "input": {"files": {"a.go": "package a; func f() { foo(0..399) }"}, "patch": patch},
                               "run": f"prlimit --fsize={lim} gopatch -p p.patch a.go", "exit": code if isinstance(code, int) else -1})
            elif after == body.encode() and code == 0:
                ctx.violation(f"write failed at limit {lim} but exit status is 0", {"fault": "fsize-exit", "limit": lim})

# --- C15 -------------------------------------------------------------------
DIR_NAMES = ["src", "pkg", "vendor", "testdata", ".git", "_tmp", "a.go", "vendors", "test_data", "x", "internal", ".hidden", "_", "sub-dir", "v"]
FILE_NAMES = ["a.go", "b.go", "main.go", "x_test.go", ".hidden.go", "_under.go", "README.md", "go", "c.go.txt", "a.GO", ".go", "z.go", "notgo",
              "ro.go", "ro_gen.go"]       # (names starting with "ro" are made read-only by materialize)

def gen_tree(rng, depth):
    """-> nested dict name -> subtree | 'f' | ('l', target) | 'o'"""
    t = {}
    for _ in range(rng.randint(1, 5)):
        n = rng.choice(FILE_NAMES)
        if n not in t:
            t[n] = "f"
    if depth > 0:
        for _ in range(rng.randint(0, 3)):
            n = rng.choice(DIR_NAMES)
            if n not in t:
                t[n] = gen_tree(rng, depth - 1)
    if depth > 0 and rng.random() < 0.25:
        # a directory next to files whose names begin with the directory's name: the walk meets them in another order
        # ("util" < "util.go" by name) than their full paths sort ("util.go" < "util/x.go": '.', '-' sort before '/')
        ds = [n for n, v in t.items() if isinstance(v, dict)] or ["util"]
        d = rng.choice(ds)
        if d not in t:
            t[d] = {"helper.go": "f", "z.go": "f"}
        for suffix in rng.sample([".go", "-x.go", "_test.go", "0.go", ".go.go"], rng.randint(1, 3)):
            if d + suffix not in t:
                t[d + suffix] = "f"
    if rng.random() < 0.3:
        for ln, target in (("link.go", "a.go"), ("linkdir", "src"), ("dangling.go", "nowhere")):
            if rng.random() < 0.5 and ln not in t:
                t[ln] = ("l", target)
    if rng.random() < 0.1 and "fifo.go" not in t:
        t["fifo.go"] = "o"
    if rng.random() < 0.2:
        # entries that are not directories but carry a name that directories are skipped for (an editor's lock
        # file is a dangling symlink called .#name; vendor can be a link): their siblings are still wanted
        for n, v in ((".#a.go", ("l", "user@host.1234")), ("vendor", ("l", "src")), ("testdata", ("l", "nowhere")),
                     ("_cache", "o"), (".socket", "o"), ("_link.go", ("l", "a.go"))):
            if rng.random() < 0.35 and n not in t:
                t[n] = v
    return t

def materialize(root, t):
    os.makedirs(root, exist_ok=True)
    for n, v in t.items():
        p = os.path.join(root, n)
        if v == "f":
            with open(p, "w") as f:
                f.write("package x\n")
            if n.startswith("ro"):
                os.chmod(p, 0o444)        # a file without write permission is a regular file like any other
        elif v == "o":
            os.mkfifo(p)
        elif isinstance(v, tuple):
            os.symlink(v[1], p)
        else:
            materialize(p, v)

def tree_sx(name, t):
    if t == "f":
        return f"(f {cl.sx_quote(name)})"
    if t == "o":
        return f"(o {cl.sx_quote(name)})"
    if isinstance(t, tuple):
        return f"(l {cl.sx_quote(name)})"
    return f"(d {cl.sx_quote(name)}" + "".join(" " + tree_sx(n, v) for n, v in sorted(t.items())) + ")"

def all_paths(t, prefix=""):
    out = []
    for n, v in t.items():
        p = prefix + n
        out.append((p, v))
        if isinstance(v, dict):
            out += all_paths(v, p + "/")
    return out

def c15_through_a_linked_directory(ctx):
    """A symbolic link to a directory is never walked, but a path *through* it names real entries: the same file can be
    reached under two names.  Each file is to be processed once (F30 when it is not)."""
    patch = "@@\nvar x expression\n@@\n-foo(x)\n+foo(wrap(x))\n"
    srcs = {"real/sub/x.go": "package a\n\nfunc f() { foo(1) }\n", "real/y.go": "package a\n\nfunc g() { foo(2) }\n"}
    once = {rel: s_.replace("foo(1)", "foo(wrap(1))").replace("foo(2)", "foo(wrap(2))") for rel, s_ in srcs.items()}
    for args, mixed in ((["real/...", "link/sub"], True), (["link/sub/x.go", "real/sub/x.go"], True), (["real/sub/x.go", "link/sub/../sub/x.go", "link/y.go"], True),
                        (["link/sub", "link/sub/x.go"], False), (["link", "real/y.go"], False), (["link/...", "real"], False)):
        root = ctx.scratch("c15link")
        cl.write_tree(root, dict(srcs, **{"p.patch": patch}))
        os.symlink("real", os.path.join(root, "link"))
        code, out, err = cl.gopatch(ctx.gopatch, root, ["-p", "p.patch"] + args)
        got = {rel: open(os.path.join(root, rel)).read() for rel in srcs}
        shutil.rmtree(root, ignore_errors=True)
        ctx.evaluations += 1
        ctx.count("files_reached_through_a_linked_directory")
        ctx.nontrivial.add("c15link:" + " ".join(args))
        twice = [rel for rel in srcs if got[rel] not in (srcs[rel], once[rel])]
        if twice or code != 0:
            ctx.violation(f"gopatch {' '.join(args)} (link -> real): {', '.join(twice) or 'no file'} processed more than once (exit {code}): a file "
                          "reached under two names through a directory that is a symbolic link is taken for two files",
                          {"input": {"arguments": args, "tree": "real/sub/x.go, real/y.go, link -> real", "patch": patch},
                           "same_file_under_two_names_through_a_symlinked_directory": mixed, "result": got})

def oddly_named_targets(ctx):
    patch = "@@\nvar x expression\n@@\n-foo(x)\n+bar(x)\n"
    body = lambda k: f"package a\n\nfunc f{k}() {{\n\tfoo({k})\n}}\n"
    names = ["-", "~", "$HOME", "*", "a b", "@list", "+x", "=y"]     # (targets spelled like flags are refused by the option parser, even after "--": reported, exit 1)
    for nm in names:
        for how in ("flag", "list", "stdin"):
            for stdin in ("", "other\n", None):
                if how == "stdin" and stdin != "":
                    continue
                root = ctx.scratch("odd-target")
                files = {f"{nm}/a.go": body(1), f"{nm}/sub/b.go": body(2), "other/c.go": body(3), "p.patch": patch, "list.txt": "p.patch\n"}
                cl.write_tree(root, files)
                args = {"flag": ["-p", "p.patch"], "list": ["-P", "list.txt"], "stdin": []}[how]
                sep = ["--"] if nm.startswith("-") and nm != "-" else []
                try:
                    r = subprocess.run([ctx.gopatch] + args + sep + [nm], cwd=root, input=(patch if how == "stdin" else (stdin or "")).encode(),
                                       stdout=subprocess.PIPE, stderr=subprocess.PIPE, timeout=180)
                    code, err = r.returncode, r.stderr.decode("utf-8", "replace")
                except subprocess.TimeoutExpired:
                    code, err = "timeout", ""
                ctx.evaluations += 1
                ctx.count("oddly_named_targets")
                ctx.nontrivial.add(f"oddtarget:{nm}:{how}:{stdin!r}")
                got = {rel: open(os.path.join(root, rel)).read() for rel in files if rel.endswith(".go")}
                want = {rel: (src.replace("foo(", "bar(") if rel.startswith(nm + "/") else src) for rel, src in files.items() if rel.endswith(".go")}
                if code != 0 or got != want:
                    wrong = sorted(rel for rel in want if got[rel] != want[rel])
                    ctx.violation(f"the target {nm!r} (a directory of that name; patch given by {how}, standard input {stdin!r}): exit {code}; "
                                  f"not as requested: {wrong or 'exit status only'} - exactly the files beneath it are to be processed",
                                  {"input": {"files": sorted(files), "args": args + sep + [nm], "stdin": stdin if how != "stdin" else "the patch"}, "stderr": err[-400:]})
                shutil.rmtree(root, ignore_errors=True)

@prop("C15")
def c15(ctx):
    facts_tie(ctx)
    c15_through_a_linked_directory(ctx)
    # "every requested file": also the ones after a file whose result could not be written
    unwritable_target_family(ctx, "C15")
    # targets whose names look like options or like "standard input", with the patch given by -p, by -P and on standard input,
    # and with something or nothing on standard input: a target is a path, whatever it is called
    oddly_named_targets(ctx)
    ctx.rule = ("directory trees (nesting up to 4; directory names incl. vendor, testdata, .git, _tmp, a.go, vendors; files incl. "
                ".hidden.go, _under.go, non-.go names, symlinks to files and directories, dangling links, fifos) are created on disk; "
                "argument lists mix '.', './...', sub-directories with and without '...', absolute paths, '../<cwd>/x', 'd/..', 'd/../...', explicit "
                "files (also inside excluded directories), repeats and overlaps; the processed set and order are read from the "
                "binary's -v lines under a patch that never matches and compared with the Lean model findFiles on the same abstract "
                "tree. Non-trivial = at least one file processed; distinct = distinct (tree, args).")
    rng = random.Random(ctx.seed)
    n = 400 if ctx.tier == "quick" else 6000
    patch = "@@\n@@\n-zzz_never_matches_zzz(1)\n+zzz(2)\n"
    jobs = []
    base = ctx.scratch("walk")
    os.chmod(base, 0o755)
    with open(os.path.join(base, "never.patch"), "w") as f:
        f.write(patch)
    base_comps = [c for c in base.split("/") if c]
    for k in range(n):
        t = gen_tree(rng, rng.randint(1, 4))
        cwd_name = rng.choice(["w", "w", "proj", "_ws", ".ws", "vendor"]) + str(k)
        if rng.random() < 0.85:
            cwd_name = "w" + str(k)
        root = os.path.join(base, cwd_name)
        materialize(root, t)
        paths = all_paths(t)
        dirs = [p for p, v in paths if isinstance(v, dict)]
        files = [p for p, v in paths if not isinstance(v, dict)]
        safe = lambda p: not any(isinstance(v2, tuple) for q, v2 in paths if (p + "/").startswith(q + "/") and q != p)
        cands = [".", "./...", "..." ] + [d for d in dirs if safe(d)] + [d + "/..." for d in dirs if safe(d)] + \
                [f for f in files if safe(f)] + [os.path.join(root, d) for d in dirs[:2] if safe(d)] + \
                [f"../{cwd_name}/" + d for d in dirs[:2] if safe(d)] + ["./" + f for f in files[:2] if safe(f)] + \
                [d + "/.." for d in dirs[:3] if safe(d)] + [d + "/../..." for d in dirs[:2] if safe(d)] + \
                [d + "/../" + d2 for d in dirs[:2] for d2 in dirs[:2] if safe(d) and safe(d2) and "/" not in d2] + \
                [os.path.join(root, d) + "/.." for d in dirs[:1] if safe(d)]
        # the same entries named absolutely, symbolic links (to files, to directories, dangling) first: how an argument is
        # resolved must not depend on whether it was given relative to the working directory or not
        links = [p for p, v in paths if isinstance(v, tuple) and safe(p)]
        cands += [os.path.join(root, p) for p in links[:4]] + [os.path.join(root, p) + "/..." for p in links[:2]] + \
                 [p + "/..." for p in links[:2]] + [os.path.join(root, f) for f in files[:2] if safe(f)]
        args = [rng.choice(cands) for _ in range(rng.randint(1, 4))]
        if rng.random() < 0.15:
            # overlap on purpose: a directory (or everything) and a file below it, in either order
            fs = [f for f in files if safe(f)]
            if fs:
                f_ = rng.choice(fs)
                top = rng.choice([".", "./...", os.path.dirname(f_) or "."])
                args = rng.choice([[top, f_], [f_, top], [top, f_, f_], [top, "./" + f_]])
        if links and rng.random() < 0.3:
            # a symbolic link named as an argument, absolutely and relatively: it is an entry of its own, not its target
            ln = rng.choice(links)
            args = rng.choice([[os.path.join(root, ln)], [ln], [os.path.join(root, ln) + "/..."], [os.path.join(root, ln), ln],
                               [rng.choice(cands), os.path.join(root, ln)]])
        if rng.random() < 0.05:
            args.append("does_not_exist")
        jobs.append((k, root, cwd_name, t, args))
    def one(job):
        k, root, cwd_name, t, args = job
        code, out, err = cl.gopatch(ctx.gopatch, root, ["-p", "../never.patch", "--print-only", "-v"] + args)
        got = [l[: -len(": skipped")] for l in out.decode("utf-8", "replace").splitlines() if l.endswith(": skipped")]
        return code, got, err.decode("utf-8", "replace")
    with ThreadPoolExecutor(max_workers=16) as ex:
        obs = list(ex.map(one, jobs))
    # model
    lines = []
    for k, root, cwd_name, t, args in jobs:
        node = tree_sx(cwd_name, t)
        for c in reversed(base_comps):
            node = f"(d {cl.sx_quote(c)} {node})"
        node = f'(d "" {node})'
        cwd = " ".join(cl.sx_quote(c) for c in base_comps + [cwd_name])
        lines.append(f'(case w{k} walk (cwd {cwd}) (args {" ".join(cl.sx_quote(a) for a in args)}) (tree {node}))')
    r = subprocess.run([ctx.driver], input="\n".join(lines) + "\n", stdout=subprocess.PIPE, stderr=subprocess.PIPE, text=True)
    model = {}
    for l in r.stdout.splitlines():
        sx = parse_sx(l)
        if sx and sx[0] == "res":
            fl = common.sx_field(sx[2:], "files")
            model[sx[1]] = None if fl is None else [cl.sx_unquote(x) for x in fl]
    for (k, root, cwd_name, t, args), (code, got, err) in zip(jobs, obs):
        ctx.evaluations += 1
        want = model.get(f"w{k}", "missing")
        if want == "missing":
            ctx.broken("driver", f"no model answer for w{k}")
            continue
        ctx.count("args:" + str(len(args)))
        if got:
            ctx.nontrivial.add(json.dumps([t, args], sort_keys=True, default=str))
        if len(ctx.samples) < 3 and got:
            ctx.sample({"args": args, "processed": [g[len(root) + 1:] for g in got][:8], "tree": sorted(p for p, _ in all_paths(t))[:25]})
        if want is None:
            if code == 0 or got:
                ctx.violation(f"a pattern that cannot be enumerated must stop the run with an error; exit {code}, processed {len(got)} files",
                              {"input": {"tree": sorted(p for p, _ in all_paths(t)), "args": args, "cwd": cwd_name}})
            continue
        if got != want:
            extra = sorted(set(got) - set(want))
            missing = sorted(set(want) - set(got))
            what = f"processed files differ: unexpected {[e[len(root)+1:] for e in extra][:5]}, missing {[m[len(root)+1:] for m in missing][:5]}"
            if not extra and not missing:
                what = "processed files are the right set but in a different order or repeated: " + str([g[len(root)+1:] for g in got][:8])
            ctx.violation(what, {"input": {"tree": {p: ("dir" if isinstance(v, dict) else ("symlink" if isinstance(v, tuple) else ("fifo" if v == "o" else "file"))) for p, v in all_paths(t)},
                                            "args": args, "cwd_name": cwd_name},
                                 "observed": [g[len(root)+1:] for g in got], "specification": [w[len(root)+1:] for w in want],
                                 "reproduce": "create the tree (every .go file: 'package x'), cd into it, gopatch -p never.patch --print-only -v <args>"})

# ---------------------------------------------------------------------------
# front stream: sectioning, metavariable section, diagnostics

def run_front(ctx, fcases):
    d = ctx.scratch("front")
    p = os.path.join(d, "in.jsonl")
    with open(p, "w") as f:
        for c in fcases:
            f.write(json.dumps({"id": c["id"], "patch": c["patch"]}) + "\n")
    r = run([ctx.harness, "front", "-inputs", p, "-out", d], timeout=1800)
    if r.returncode != 0:
        ctx.broken("harness", "zzverif front failed: " + r.stderr[-2000:])
        return []
    with open(os.path.join(d, "front.cases")) as fin:
        m = subprocess.run([ctx.driver], stdin=fin, stdout=subprocess.PIPE, stderr=subprocess.PIPE, text=True, timeout=1800)
    impl = open(os.path.join(d, "front.impl")).read().splitlines()
    model = m.stdout.splitlines()
    shutil.rmtree(d, ignore_errors=True)
    if len(impl) != len(model) or len(impl) != len(fcases):
        ctx.broken("driver", f"front: line counts differ impl={len(impl)} model={len(model)} cases={len(fcases)}")
        return []
    return list(zip(fcases, impl, model))

def split_tie(ctx, fcases):
    """The '-' and '+' versions of every change (splitPatch: bytes and line positions) and the place recorded for every
    elision, implementation against the model's chain from the bytes of the patch (Sec.split, Sec.splitPatch, the finder
    and the rewriter on go/scanner's tokens, posAdjuster, Version.positionIn)."""
    if not fcases:
        return
    d = ctx.scratch("split")
    p = os.path.join(d, "in.jsonl")
    seen = set()
    uniq = []
    for c in fcases:
        if c["patch"] not in seen:
            seen.add(c["patch"])
            uniq.append(c)
    with open(p, "w") as f:
        for i, c in enumerate(uniq):
            f.write(json.dumps({"id": f"s{i}", "patch": c["patch"]}) + "\n")
    r = run([ctx.harness, "split", "-inputs", p, "-out", d], timeout=1800)
    if r.returncode != 0:
        ctx.broken("harness", "zzverif split failed: " + r.stderr[-2000:])
        return
    with open(os.path.join(d, "split.cases")) as fin:
        m = subprocess.run([ctx.driver], stdin=fin, stdout=subprocess.PIPE, stderr=subprocess.PIPE, text=True, timeout=1800)
    impl = open(os.path.join(d, "split.impl")).read().splitlines()
    model = m.stdout.splitlines()
    shutil.rmtree(d, ignore_errors=True)
    if len(impl) != len(model) or len(impl) != len(uniq):
        ctx.broken("driver", f"split: line counts differ impl={len(impl)} model={len(model)} cases={len(uniq)} {m.stderr[-300:]}")
        return
    bad = 0
    for c, a, b in zip(uniq, impl, model):
        ctx.evaluations += 1
        ctx.count("split_patches")
        # model only: on how many versions the hypothesis of elision_recorded_where_its_dots_stand (AugsOK) holds / fails
        # and on how many the hypothesis on go/scanner's tokens alone (ScanOK), from which find_augs_ok proves it
        mh = re.search(r" \(hyp (\d+) (\d+) (\d+) (\d+)\)\)$", b)
        if mh:
            ctx.count("split_versions_augs_in_order", int(mh.group(1)))
            if int(mh.group(2)):
                ctx.count("split_versions_augs_not_in_order", int(mh.group(2)))
            ctx.count("split_versions_scanner_tokens_as_assumed", int(mh.group(3)))
            if int(mh.group(4)):
                ctx.count("split_versions_scanner_tokens_not_as_assumed", int(mh.group(4)))
            b = b[:mh.start()] + ")"
        if a.endswith(" (splitunavailable))"):
            a = a[:-len(" (splitunavailable))")] + ")"
            ctx.count("split_versions_cut_by_the_harness")
        if a == b:
            ctx.count("split_agree" + ("_section_error" if "(sectionerr)" in a else ""))
            if "(dots (c" in a and "(m)" not in a.split("(dots", 1)[1]:
                ctx.count("split_patches_with_elisions")
            continue
        ia, ib = a.find(" (dots"), b.find(" (dots")
        if ia < 0 or ib < 0 or a[:ia] != b[:ib]:
            bad += 1
            if bad <= 3:
                ctx.violation("the '-' and '+' versions of a change are not what the lines of the patch say: a line that starts with '-' "
                              "belongs to the '-' version without that character, one that starts with '+' to the '+' version, every other "
                              "line to both as it is, each recorded at the place of its text in the patch file",
                              {"input": {"patches": [c["patch"]]}, "implementation": a[:1500], "model": b[:1500]})
            continue
        da, db = a[ia:], b[ib:]
        if da.startswith(" (dots rejected") or da.startswith(" (dots panic"):
            ctx.count("split_patch_rejected")
            continue
        bad += 1
        if bad <= 3:
            ctx.violation("an elision of the patch is recorded at another place than the one where its \"...\" stands in the patch file "
                          "(line and column of every elision of each version of each change, implementation against the model's "
                          "chain from the bytes of the patch): which '+' elision belongs to which '-' elision is decided by these places",
                          {"input": {"patches": [c["patch"]]}, "implementation": da[:1500], "model": db[:1500]})
    ctx.extra["split_disagreements"] = bad

def loader_tie(ctx, n_quick=60, n_thorough=1500):
    """Which patches a run loads, in which order, and where loading stops: the binary (descriptions on stderr name the
    changes that applied, in order; a failure names the source and leaves the file alone) against the Lean model of
    loadPatches / patchLoader on the same flags and the same bytes of the -P file."""
    rng = random.Random(ctx.seed + 77)
    names = [f"p{k}.patch" for k in range(5)]
    # every patch appends its own number to the arguments of one call: the call in the result spells out which patches
    # were applied, in which order, repeats included
    mk = lambda k: f"@@\n@@\n-step(...)\n+step(..., {k})\n"
    files = {n: mk(k) for k, n in enumerate(names)}
    files["bad.patch"] = "@@\nvar x bogus\n@@\n-a(x)\n+b(x)\n"
    files["sub/q.patch"] = mk(5)
    files["a.go"] = "package a\n\nfunc f() {\n\tstep()\n}\n"
    good = names + ["sub/q.patch"]
    pool = names + ["sub/q.patch", "bad.patch", "missing.patch"]
    stdin_patch = mk(6)
    jobs = []
    for k in range(n_quick if ctx.tier == "quick" else n_thorough):
        flags = [rng.choice(pool if rng.random() < 0.25 else good) for _ in range(rng.choice([0, 0, 1, 2, 3]))]
        lst = None
        if rng.random() < 0.7:
            lines = []
            for _ in range(rng.randint(0, 5)):
                r = rng.random()
                lines.append(rng.choice(good) if r < 0.6 else rng.choice(["", "", " ", "bad.patch", "missing.patch", " p0.patch", "p1.patch ", "# p2.patch", "\t"]))
            nl = rng.choice(["\n", "\n", "\r\n"])
            text = nl.join(lines) + (nl if rng.random() < 0.7 and lines else "")
            lst = text if rng.random() < 0.93 else None         # None: -P names a file that does not exist
        stdin_ok = rng.random() < 0.8
        jobs.append((k, flags, lst, lst is None and rng.random() < 0.0, stdin_ok))
    def one(job):
        k, flags, lst, _, stdin_ok = job
        root = ctx.scratch("load")
        cl.write_tree(root, files)
        args = [x for f in flags for x in ("-p", f)]
        use_list = lst is not None or (k % 11 == 5)
        if lst is not None:
            with open(os.path.join(root, "list.txt"), "wb") as f:
                f.write(lst.encode())
        if use_list:
            args += ["-P", "list.txt"]
        sin = (stdin_patch if stdin_ok else "@@\nvar x bogus\n@@\n-a(x)\n+b(x)\n").encode()
        code, out, err = cl.gopatch(ctx.gopatch, root, args + ["a.go"], stdin=sin, timeout=180)
        after = open(os.path.join(root, "a.go")).read()
        shutil.rmtree(root, ignore_errors=True)
        return use_list, code, err.decode("utf-8", "replace"), after
    with ThreadPoolExecutor(max_workers=16) as ex:
        obs = list(ex.map(one, jobs))
    lines = []
    for (k, flags, lst, _, stdin_ok), (use_list, code, err, after) in zip(jobs, obs):
        lsx = ""
        if use_list:
            lsx = " (list \"list.txt\" " + ("none" if lst is None else '"' + lst.encode().hex() + '"') + ")"
        lines.append(f'(case l{k} load (flags {" ".join(cl.sx_quote(f) for f in flags)}){lsx} (good {" ".join(cl.sx_quote(g) for g in good)})'
                     + (" (stdingood 1)" if stdin_ok else "") + ")")
    m = subprocess.run([ctx.driver], input="\n".join(lines) + "\n", stdout=subprocess.PIPE, stderr=subprocess.PIPE, text=True, timeout=600)
    outl = m.stdout.splitlines()
    if len(outl) != len(jobs):
        ctx.broken("driver", f"load stream: cases {len(jobs)} model {len(outl)} {m.stderr[-300:]}")
        return
    num_of = {**{n: k for k, n in enumerate(names)}, "sub/q.patch": 5, "stdin": 6}
    for (k, flags, lst, _, stdin_ok), (use_list, code, err, after), ml in zip(jobs, obs, outl):
        ctx.evaluations += 1
        sx = parse_sx(ml)
        loaded, failed = sx_field(sx[2:], "loaded"), sx_field(sx[2:], "failed")
        inp = {"flags": flags, "list_file": lst, "uses_-P": use_list, "stdin_is_a_good_patch": stdin_ok,
               "reproduce": "patch file pK.patch appends K to the arguments of step(...) (sub/q.patch: 5, stdin: 6), bad.patch is rejected; a.go holds step(); gopatch [-p ...] [-P list.txt] a.go"}
        if loaded is not None:
            srcs = [x if x == "stdin" else cl.sx_unquote(x) for x in loaded]
            ctx.count("loader:loaded")
            if len(srcs) >= 2:
                ctx.nontrivial.add(json.dumps([flags, lst]))
            want = "step(" + ", ".join(str(num_of[s_]) for s_ in srcs) + ")"
            mgot = re.search(r"step\([^)]*\)", after)
            got = mgot.group(0) if mgot else None
            if code != 0 or got != want:
                ctx.violation(f"the patches of the run are not loaded as the command line says: the specification loads {srcs}, in this "
                              f"order, so the call in a.go becomes {want}; the run exits {code} and leaves {got}",
                              {"input": inp, "stderr": err[-800:]})
        else:
            ctx.count("loader:failed")
            ctx.nontrivial.add(json.dumps([flags, lst, "fail"]))
            what = failed[0] if failed else "?"
            name = "list.txt" if what == "list" else ("stdin" if what == "stdin" else cl.sx_unquote(what))
            probs = []
            if code == 0:
                probs.append("the run succeeds")
            if name not in err:
                probs.append(f"stderr does not name {name!r}")
            if after != files["a.go"]:
                probs.append("a.go was rewritten")
            if probs:
                ctx.violation(f"loading must stop at {name!r} (it cannot be opened, parsed or compiled) with a diagnostic that names it, and "
                              f"nothing may be rewritten: " + "; ".join(probs), {"input": inp, "exit": code, "stderr": err[-800:]})

def split_patch_text(p):
    """-> (desc lines, header line, meta lines, body lines) of a single-change patch"""
    lines = p.rstrip("\n").split("\n")
    i = 0
    desc = []
    while i < len(lines) and lines[i].lstrip().startswith("#"):
        desc.append(lines[i]); i += 1
    header = lines[i]; i += 1
    meta = []
    while i < len(lines) and lines[i] != "@@":
        meta.append(lines[i]); i += 1
    body = lines[i + 1:]
    return desc, header, meta, body

def front_cases_with_faults(ctx, rng, n):
    """multi-change patches with one header / metavariable fault at a known place"""
    cand = [c for c in gen_cases(ctx, "mix", 300, ctx.seed, golden=False) if len(c.get("patches", [])) == 1]
    # keep the building blocks that are accepted as they are
    probe = run_front(ctx, [{"id": f"b{i}", "patch": c["patches"][0]} for i, c in enumerate(cand)])
    base = [cand[i] for i, (c, impl, model) in enumerate(probe) if "(diag ok)" in impl]
    if not base:
        ctx.broken("generator", "no acceptable building-block patch")
        return []
    out = []
    kinds = ["badname", "junk", "unknowntype", "duplicate", "duplicate2", "missingtype", "extratoken", "novar", "illegal", "none",
             "opencomment", "opencomment-own-line", "openstring", "nulchar"]
    for k in range(n):
        nch = rng.randint(1, 4)
        fault_at = rng.randrange(nch)
        kind = kinds[k % len(kinds)]
        lines = []
        expect = None
        for ci in range(nch):
            desc, header, meta, body = split_patch_text(rng.choice(base)["patches"][0])
            for _ in range(rng.randint(0, 2)):
                lines.append(rng.choice(["", "# a comment", "   # indented comment", "#"] if ci > 0 else ["# a comment", "   # indented comment", "#"]))
            lines += desc
            if ci == fault_at and kind == "badname":
                name = rng.choice(["na!me", "9lives", "a b", "x-y", "ok$", "@", "größe-fix", "naïve!x", "日本-x", "é9 z", "ß$"])
                pad = " " * rng.randint(0, 3)
                header = "@" + pad + name + " @"
                bad = next(i for i, ch in enumerate(name) if not (ch.isalpha() or ch == "_" or (i > 0 and ch.isdigit())))
                # columns count bytes: letters outside ASCII in front of the offending character are wider than one
                expect = (len(lines) + 1, 1 + 1 + len(pad) + len(name[:bad].encode("utf-8")), "badname")
            if ci == fault_at and kind == "junk" and ci == 0:
                lines.append("junk here")
                expect = (len(lines), 1, "badheader")
            lines.append(header)
            if ci == fault_at and kind in ("unknowntype", "duplicate", "duplicate2", "missingtype", "extratoken", "novar", "illegal",
                                           "opencomment", "opencomment-own-line", "openstring", "nulchar"):
                for _ in range(rng.randint(0, 2)):
                    # blank lines, patch comments, and Go comments (go/scanner reads the section): among them comments
                    # that look like line directives, which must not move the reported position
                    meta.append(rng.choice(["", "# c", "// a Go comment", "/* block */", "//line legacy.go:40", "//line legacy.go:40:3",
                                            "/*line other.patch:7:1*/", "var okq1 expression // trailing", "/* two\nlines */"]))
                meta = [x for m in meta for x in m.split("\n")]
                ind = " " * rng.randint(0, 2)
                if kind == "unknowntype":
                    meta.append(ind + "var zq9 identifer")
                    expect = (len(lines) + len(meta), len(ind) + 9, "unknownType")
                elif kind == "duplicate":
                    meta.append(ind + "var zq9, zq9 expression")
                    expect = (len(lines) + len(meta), len(ind) + 10, "duplicate")
                elif kind == "duplicate2":
                    meta.append("var zq9 expression")
                    meta.append(ind + "var w1, zq9 identifier")
                    expect = (len(lines) + len(meta), len(ind) + 9, "duplicate")
                elif kind == "missingtype":
                    meta.append(ind + "var zq9")
                    expect = (len(lines) + len(meta), len(ind) + 8, "expectedIdent")
                elif kind == "extratoken":
                    meta.append(ind + "var zq9 expression extra")
                    expect = (len(lines) + len(meta), len(ind) + 20, "expectedSemi")
                elif kind == "novar":
                    meta.append(ind + "zq9 expression")
                    expect = (len(lines) + len(meta), len(ind) + 1, "expectedVar")
                elif kind == "illegal":
                    meta.append(ind + "var zq9 $ expression")
                    expect = (len(lines) + len(meta), len(ind) + 9, "other")
                elif kind == "opencomment":
                    # what only the scanner objects to: a comment that is never closed after a complete declaration
                    meta.append(ind + "var zq9 expression /* never closed")
                    expect = (len(lines) + len(meta), len(ind) + 20, "other")
                elif kind == "opencomment-own-line":
                    meta.append("var zq9 expression")
                    meta.append(ind + "/* never closed")
                    expect = (len(lines) + len(meta), len(ind) + 1, "other")
                elif kind == "openstring":
                    meta.append(ind + "var zq9 expression \"open")
                    expect = (len(lines) + len(meta), len(ind) + 20, "other")
                elif kind == "nulchar":
                    meta.append(ind + "var zq9 expression // nul \x00 here")
                    expect = (len(lines) + len(meta), len(ind) + 27, "other")
            # '#' lines inside the metavariable section do not count as lines of it, but they are lines of the file
            lines += meta
            lines.append("@@")
            lines += body
        text = "\n".join(lines) + ("\n" if rng.random() < 0.9 else "")
        out.append({"id": f"fc{k}", "patch": text, "kind": kind if expect else "none", "expect": expect})
        if k % 6 == 0:
            # the same text after blank or whitespace-only lines: whatever is made of it, the command line, the library and the
            # specification make the same of it
            lead = rng.choice(["\n", "\n\n", "  \n", "\t\n \n", "\r\n"])
            out.append({"id": f"fc{k}lead", "patch": lead + text, "kind": "none", "expect": None})
    return out

def diag_of(line):
    sx = parse_sx(line)
    d = sx_field(sx[2:], "diag") or []
    stage = d[0] if d else "?"
    return stage, [tuple(x) for x in d[1:]]

def strip_api(line):
    return re.sub(r" \(api \w+(?: \(\d+ \d+\))*\)\)$", ")", line).replace("(diag ok)", "(diag pass)")

def api_positions(line):
    m = re.search(r" \(api \w+((?: \(\d+ \d+\))*)\)\)$", line)
    return set(re.findall(r"\((\d+) (\d+)\)", m.group(1))) if m else set()

def c19_several_faults(ctx, rng):
    """a fault in the metavariable section of several changes of one patch: every one is reported at its own place"""
    n = 40 if ctx.tier == "quick" else 1500
    fcs = []
    for k in range(n):
        lines, expects = [], []
        nch = rng.randint(2, 4)
        faulty = sorted(rng.sample(range(nch), rng.randint(2, nch)))
        for ci in range(nch):
            for _ in range(rng.randint(0, 2)):
                lines.append(rng.choice(["# a comment", "#", "   # indented"]) if ci == 0 else rng.choice(["", "# a comment", "#"]))
            lines.append(rng.choice(["@@", f"@ ch{ci} @"]))
            lines.append(f"var a{ci} expression")
            if ci in faulty:
                for _ in range(rng.randint(0, 2)):
                    lines.append(rng.choice(["", "# c", "// a Go comment", f"var ok{ci} identifier"]))
                ind = " " * rng.randint(0, 2)
                if rng.random() < 0.5:
                    lines.append(ind + f"var zq{ci} identifer")
                    expects.append((len(lines), len(ind) + 9))
                else:
                    lines.append(ind + f"var zq{ci}, zq{ci} expression")
                    expects.append((len(lines), len(ind) + 10))
            lines.append("@@")
            lines += [f"-foo{ci}(a{ci})", f"+bar{ci}(a{ci})", ""]
        fcs.append({"id": f"mf{k}", "patch": "\n".join(lines), "expects": expects})
    res = run_front(ctx, fcs)
    cli_budget = 12 if ctx.tier == "quick" else 200
    for c, impl, model in res:
        ctx.evaluations += 1
        ctx.count("several_faults")
        ctx.nontrivial.add(c["patch"])
        stage, diags = diag_of(impl)
        mstage, mdiags = diag_of(model)
        got = {(d[0], d[1]) for d in diags}
        missing = [e for e in c["expects"] if (str(e[0]), str(e[1])) not in got]
        probs = []
        if missing:
            probs.append(f"faults at {missing} are not reported at their place (reported: {sorted(got)})")
        if (stage, sorted(diags)) != (mstage, sorted(mdiags)):
            probs.append(f"diagnostics differ from the specification: implementation {stage} {diags}, model {mstage} {mdiags}")
        if cli_budget > 0:
            cli_budget -= 1
            root = ctx.scratch("c19mf")
            cl.write_tree(root, {"p.patch": c["patch"], "a.go": "package a\n\nfunc f() { foo0(1) }\n"})
            code, out, err = cl.gopatch(ctx.gopatch, root, ["-p", "p.patch", "."])
            e = err.decode("utf-8", "replace")
            ctx.evaluations += 1
            lost = [x for x in c["expects"] if f"p.patch:{x[0]}:{x[1]}" not in e]
            if code == 0 or lost:
                probs.append(f"CLI: exit {code}; positions {lost} are missing from stderr {e.strip()[:300]!r}")
            shutil.rmtree(root, ignore_errors=True)
        if probs:
            ctx.violation("; ".join(probs[:3]), {"input": {"patch": c["patch"], "injected_at": c["expects"]}, "implementation": impl[-600:],
                                                  "model": model[-600:], "reproduce": "gopatch -p p.patch ."})

REJECTED_PATCHES = [
    # (patch, line, column of the offending token)
    ("@@\nvar x identifer\n@@\n-foo(x)\n+bar(x)\n", 2, 7),
    ("# fix\n@ na!me @\nvar x expression\n@@\n-foo(x)\n+bar(x)\n", 2, 5),
    ("@@\nvar x expression\n@@\n-foo(x)\n+bar(x)\n\n# second\n@@\nvar y, y expression\n@@\n-baz(y)\n+qux(y)\n", 9, 8),
]

def rejected_patch_whatever_the_targets(ctx):
    """"Every rejected patch yields at least one diagnostic that names the patch file": whatever the targets are - Go files, a
    directory without any, a file that is not Go, a missing path next to a good one, nothing but excluded directories - and
    however the patch is given; and nothing is rewritten."""
    tree = {"a.go": "package a\n\nfunc f() { foo(1) }\n", "empty/.keep": "", "only/testdata/t.go": "package t\n\nfunc g() { foo(2) }\n",
            "only/vendor/v.go": "package v\n", "only/_x/u.go": "package u\n", "notgo.txt": "foo(1)\n", "sub/b.go": "package b\n\nfunc h() { baz(3) }\n"}
    targets = [["."], ["a.go"], ["empty"], ["./empty/..."], ["only"], ["only/..."], ["notgo.txt"], ["a.go", "missing.go"], ["missing/..."], ["empty", "only"]]
    for pk, (patch, line, col) in enumerate(REJECTED_PATCHES):
        for how in ("flag", "list", "stdin"):
            for tk, tg in enumerate(targets):
                for flags in ([], ["-d"], ["-v"], ["--print-only"]):
                    if (pk + tk + len(flags) + len(how)) % 2 and ctx.tier == "quick":
                        continue
                    root = ctx.scratch("rejected")
                    cl.write_tree(root, dict(tree, **{"bad.patch": patch, "list.txt": "bad.patch\n"}))
                    before = cl.digest(root)
                    args = {"flag": ["-p", "bad.patch"], "list": ["-P", "list.txt"], "stdin": []}[how] + flags + tg
                    try:
                        r = subprocess.run([ctx.gopatch] + args, cwd=root, input=(patch if how == "stdin" else "").encode(), stdout=subprocess.PIPE, stderr=subprocess.PIPE, timeout=180)
                        code, err = r.returncode, r.stderr.decode("utf-8", "replace")
                    except subprocess.TimeoutExpired:
                        code, err = "timeout", ""
                    ctx.evaluations += 1
                    ctx.count("rejected_patch_runs")
                    ctx.nontrivial.add(f"rejected:{pk}:{how}:{tk}:{flags}")
                    where = ("stdin" if how == "stdin" else "bad.patch") + f":{line}:{col}"
                    probs = []
                    if code == 0:
                        probs.append("the exit status is 0")
                    if where not in err:
                        probs.append(f"no diagnostic names {where}")
                    if cl.digest(root) != before:
                        probs.append("something was rewritten")
                    if probs:
                        ctx.violation(f"a patch with a bad header or metavariable section (offending token at {where}), targets {tg or 'none'}: " + "; ".join(probs),
                                      {"input": {"patch": patch, "args": args, "files": sorted(tree)}, "exit": code, "stderr": err[-500:]})
                    shutil.rmtree(root, ignore_errors=True)

@prop("C19")
def c19(ctx):
    rejected_patch_whatever_the_targets(ctx)
    ctx.rule = ("multi-change patches (1..4 changes assembled from generated single-change patches, with random '#' and blank lines "
                "before headers and inside metavariable sections) into which one fault is injected at a generator-known line and "
                "column: bad character in a change name, text where a header is expected, unknown metavariable type, duplicate "
                "metavariable (same line / earlier line), missing type, extra token, missing 'var', illegal character. Compared: "
                "(i) section.Split output and the first diagnostic stage with positions, implementation vs Lean model (Sec.split, "
                "parseMeta on go/scanner's tokens, compileMetaErrs, mapPos); (ii) the reported line:column vs the injection point; "
                "(iii) patch.Parse's error names the patch; (iv) the CLI exits non-zero, names the patch file and rewrites nothing. "
                "Non-trivial = a fault was injected; distinct = distinct patch text.")
    rng = random.Random(ctx.seed)
    n = 300 if ctx.tier == "quick" else 20000
    c19_several_faults(ctx, random.Random(ctx.seed + 19))
    fcs = front_cases_with_faults(ctx, rng, n)
    res = run_front(ctx, fcs)
    split_tie(ctx, fcs)
    # a patch source that does not load: the diagnostic names it and nothing is rewritten, wherever it stands among the sources
    loader_tie(ctx, n_quick=40, n_thorough=800)
    cli_budget = 25 if ctx.tier == "quick" else 400
    for c, impl, model in res:
        ctx.evaluations += 1
        ctx.count("fault:" + c["kind"])
        if c["expect"]:
            ctx.nontrivial.add(c["patch"])
        if len(ctx.samples) < 3 and c["expect"]:
            ctx.sample({"patch": c["patch"][:500], "fault": c["kind"], "expected_position": list(c["expect"][:2])})
        stage, diags = diag_of(impl)
        mstage, mdiags = diag_of(model)
        probs = []
        if c["expect"]:
            want = (str(c["expect"][0]), str(c["expect"][1]), c["expect"][2])
            if stage in ("ok", "body"):
                probs.append(f"patch with an injected {c['kind']} fault was not rejected at its header/metavariable stage (stage {stage})")
            elif not any(d[:3] == want for d in diags):
                probs.append(f"diagnostic positions {diags} do not include the offending token at {want}")
            if "(api named" not in impl:
                probs.append("the library API error does not name the patch file")
        apos = api_positions(impl)
        lost = [d[:2] for d in diags if tuple(d[:2]) not in apos]
        if diags and "(api ok)" not in impl and lost:
            probs.append(f"the library reports the faults at {sorted(apos)}, the front end itself at {[tuple(d[:2]) for d in diags]}")
        if diags and "(api ok)" in impl:
            probs.append("the library accepts a patch the front end rejects")
        if strip_api(impl) != model and not (stage == "body" and mstage == "pass"):
            # positions / structure differ from the model: is it a position the property speaks about?
            if stage in ("section", "meta", "compile") or mstage in ("section", "meta", "compile"):
                if (stage, diags) != (mstage, mdiags):
                    probs.append(f"diagnostics differ from the specification: implementation {stage} {diags}, model {mstage} {mdiags}")
        if probs:
            ctx.violation("; ".join(probs[:3]), {"input": {"patch": c["patch"], "fault": c["kind"], "injected_at": c["expect"]},
                                                  "implementation": impl[-600:], "model": model[-600:],
                                                  "reproduce": "gopatch -p p.patch some.go  (or patch.Parse(\"p.patch\", bytes))"})
        # CLI: rejected patches rewrite nothing and name the patch file
        if c["expect"] and cli_budget > 0:
            cli_budget -= 1
            root = ctx.scratch("c19cli")
            cl.write_tree(root, {"p.patch": c["patch"], "a.go": "package a\n\nfunc f() { foo(1) }\n"})
            before = cl.digest(root)
            code, out, err = cl.gopatch(ctx.gopatch, root, ["-p", "p.patch", "."])
            e = err.decode("utf-8", "replace")
            ctx.evaluations += 1
            want = f"p.patch:{c['expect'][0]}:{c['expect'][1]}"
            if code == 0 or "p.patch" not in e or want not in e or cl.digest(root) != before:
                ctx.violation(f"CLI on a rejected patch: exit {code}, stderr {e.strip()[:300]!r}; expected non-zero exit, {want} on stderr, nothing rewritten",
                              {"input": {"patch": c["patch"], "files": {"a.go": "package a\n\nfunc f() { foo(1) }\n"}}})
            # ... whatever the patch file is called: names with a percent sign, blanks, letters outside ASCII, in a directory
            for pname in ("fix%20ctx.patch", "100%dup.patch", "%s%d%v.patch", "a b.patch", "größe.patch", "sub dir/p%.patch"):
                os.makedirs(os.path.dirname(os.path.join(root, pname)) or root, exist_ok=True)
                shutil.copyfile(os.path.join(root, "p.patch"), os.path.join(root, pname))
                b3 = cl.digest(root)
                code, out, err = cl.gopatch(ctx.gopatch, root, ["-p", pname, "a.go"])
                e = err.decode("utf-8", "replace")
                ctx.evaluations += 1
                ctx.count("cli_rejected_patch_with_an_unusual_name")
                want3 = f"{pname}:{c['expect'][0]}:{c['expect'][1]}"
                if code == 0 or want3 not in e or "%!" in e or cl.digest(root) != b3:
                    ctx.violation(f"CLI on a rejected patch called {pname!r}: exit {code}, stderr {e.strip()[:300]!r}; expected non-zero exit and "
                                  f"{want3} on stderr, nothing rewritten", {"input": {"patch": c["patch"], "patch_file_name": pname}})
                os.remove(os.path.join(root, pname))
            shutil.rmtree(os.path.join(root, "sub dir"), ignore_errors=True)
            # the position is a position in that patch file, wherever the file comes on the command line: after another
            # patch (its offsets in the shared file set no longer start at 1) and in a -P list
            with open(os.path.join(root, "ok.patch"), "w") as f:
                f.write("# a valid patch loaded first\n@@\nvar x expression\n@@\n-zzzNever(x)\n+zzzNever2(x)\n")
            with open(os.path.join(root, "list.txt"), "w") as f:
                f.write("ok.patch\np.patch\n")
            before2 = cl.digest(root)
            with open(os.path.join(root, "oklist.txt"), "w") as f:
                f.write("ok.patch\n")
            before2 = cl.digest(root)
            for args in (["-p", "ok.patch", "-p", "p.patch", "."], ["-P", "list.txt", "."], ["-p", "p.patch", "-P", "oklist.txt", "."],
                         ["-P", "oklist.txt", "-p", "p.patch", "."], ["-p", "p.patch", "-p", "ok.patch", "-P", "oklist.txt", "--print-only", "."]):
                code, out, err = cl.gopatch(ctx.gopatch, root, args)
                e = err.decode("utf-8", "replace")
                ctx.evaluations += 1
                ctx.count("cli_rejected_after_another_patch")
                if code == 0 or want not in e or cl.digest(root) != before2 or "ok.patch:" in e:
                    ctx.violation(f"CLI on a rejected patch given after a valid one ({' '.join(args)}): exit {code}, stderr {e.strip()[:300]!r}; "
                                  f"expected non-zero exit, {want} on stderr, nothing rewritten",
                                  {"input": {"patch": c["patch"], "args": args, "files": {"ok.patch": open(os.path.join(root, "ok.patch")).read(),
                                                                                          "a.go": "package a\n\nfunc f() { foo(1) }\n"}}})
            shutil.rmtree(root, ignore_errors=True)

# --- C13 -------------------------------------------------------------------
WORD = lambda w: re.compile(r"(?<![A-Za-z0-9_])" + re.escape(w) + r"(?![A-Za-z0-9_])")

GO_KEYWORDS = set("break default func interface select case defer go map struct chan else goto package switch const fallthrough if range type continue for import return var nil true false iota _ int string bool byte error any".split())

def layout_variant(rng, patch, file_words=None, t=None, rng2=None):
    """one meaning-preserving re-layout of a single-change patch; returns (text, [transformations]); `t` selects the
    transformation (drawn if None); `rng2` decides about the unterminated last line, so that adding such independent
    decorations does not shift the choices drawn from `rng`"""
    desc, header, meta, body = split_patch_text(patch)
    done = []
    if t is None:
        t = rng.randrange(9)
    rng2 = rng2 or rng
    if t == 7:      # re-wrap: break the lines of the pattern after commas, identically on both sides
        out = []
        for l in body:
            if l and l[0] in " -+" and ", " in l and not any(q in l for q in '"`\''):
                parts = l[1:].split(", ")
                out.append(l[0] + parts[0] + ",")
                for k, part in enumerate(parts[1:]):
                    out.append(l[0] + "\t" + part + ("," if k < len(parts) - 2 else ""))
            else:
                out.append(l)
        if out != body:
            body = out
            done.append("rewrap")
    elif t == 8:    # blank line between the second @@ and the first line of the diff
        body.insert(0, "")
        done.append("leading-blank-line")
    elif t == 0:      # '#' comment lines anywhere (not above the header: that would change the description)
        for _ in range(rng.randint(1, 3)):
            c = rng.choice(["# note", "#", "  # indented", "#@@ not a header"])
            if meta and rng.random() < 0.4:
                meta.insert(rng.randrange(len(meta) + 1), c)
            else:
                body.insert(rng.randrange(len(body) + 1), c)
        done.append("comments")
    elif t == 1:    # blank lines between metavariable declarations and at the end of the body
        if meta:
            meta.insert(rng.randrange(len(meta) + 1), "")
        body.append("")
        done.append("blank-lines")
    elif t == 2:    # name the change
        if header == "@@":
            header = "@ " + rng.choice(["renamed", "x1", "_tmp"]) + " @"
            done.append("name")
    elif t == 3:    # rename metavariables consistently (not the import-name one)
        names = re.findall(r"\b(mv\d+|id\d+|mvs)\b", "\n".join(meta))
        # half of the time the new names are words that occur in the target file as ordinary code (fields, variables,
        # functions) but nowhere in the patch: a metavariable's spelling must not matter even then
        words = set(re.findall(r"[A-Za-z_]\w*", "\n".join(desc + [header] + meta + body)))
        pool = [w for w in (file_words or []) if w not in words and w not in GO_KEYWORDS]
        rng.shuffle(pool)
        for n in sorted(set(names)):
            new = pool.pop() if pool and rng.random() < 0.5 else ("q" + n + "z")
            meta = [WORD(n).sub(new, l) for l in meta]
            # a metavariable is in scope in its own change only: what follows the next header belongs to another
            # change, where the same word is ordinary code (false alarm of sweep seed 85)
            stop = next((k for k, l in enumerate(body) if l.startswith("@")), len(body))
            body = [WORD(n).sub(new, l) if k < stop and not l.startswith("#") else l for k, l in enumerate(body)]
        if names:
            done.append("rename-metavariables")
    elif t == 4:    # regroup / reorder declarations
        decls = []
        for l in meta:
            m = re.match(r"^var (.*) (expression|identifier)$", l)
            if m:
                for n in m.group(1).split(","):
                    decls.append((n.strip(), m.group(2)))
            elif l.strip():
                return patch, []
        rng.shuffle(decls)
        meta = [f"var {n} {k}" for n, k in decls]
        if decls:
            done.append("regroup-declarations")
    elif t == 5:    # an unchanged elision-free line as an identical -/+ pair
        idx = [i for i, l in enumerate(body) if l.startswith(" ") and "..." not in l and l.strip() and not l.strip().startswith(("import", "package"))]
        if idx:
            i = rng.choice(idx)
            body[i:i + 1] = ["-" + body[i][1:], "+" + body[i][1:]]
            done.append("context-as-pair")
    else:           # re-space the Go code identically on both sides
        def respace(l):
            if not l or l[0] not in " -+":
                return l
            code = l[1:]
            if '"' in code or "`" in code or "'" in code:
                return l
            return l[0] + code.replace(", ", " ,  ").replace("(", "( ").rstrip() + "  "
        body = [respace(l) for l in body]
        done.append("respace")
    text = "\n".join(desc + [header] + meta + ["@@"] + body) + "\n"
    if rng2.random() < 0.25 and body and body[-1].strip():
        # the last line of the file is not terminated
        text = text[:-1]
        done.append("no-final-newline")
    return text, done

RENAME_TABLE = [
    ("@@\nvar {M} expression\n@@\n-{M} == {M}\n+true\n",
     "package a\n\nfunc f(p, q T, x, y, e int) bool {\n\tif p.x == p.y {\n\t\treturn q.e == q.e\n\t}\n\treturn g(x) == g(y) || h[e] == h[x]\n}\n"),
    ("@@\nvar {M} expression\n@@\n-pair({M}, {M})\n+one({M})\n",
     "package a\n\nfunc f(a, b []int, i, j, k int) {\n\tpair(a[i], a[j])\n\tpair(b[k], b[k])\n\tpair(func(i int) int { return i }, func(j int) int { return j })\n}\n"),
    ("@@\nvar {M} identifier\n@@\n-{M}.Lock()\n-defer {M}.Unlock()\n+defer guard({M})()\n",
     "package a\n\nfunc f(mu, mv Mutex) {\n\tmu.Lock()\n\tdefer mv.Unlock()\n}\n\nfunc g(mu Mutex) {\n\tmu.Lock()\n\tdefer mu.Unlock()\n}\n"),
]

QUOTE_TABLE = [
    ("@@\nvar s expression\n@@\n if s == \"`\" {\n-\tfoo(s)\n+\tbar(s)\n }\n",
     "package a\n\nfunc f(t string) {\n\tif t == \"`\" {\n\t\tfoo(t)\n\t}\n}\n"),
    ("@@\nvar s expression\n@@\n-foo(s, '`')\n+bar(s, '`')\n",
     "package a\n\nfunc f(t string) {\n\tfoo(t, '`')\n}\n"),
    ("@@\nvar s expression\n@@\n-foo(s, `\"`, '\"')\n+bar(s)\n",
     "package a\n\nfunc f(t string) {\n\tfoo(t, `\"`, '\"')\n}\n"),
    ("@@\nvar s expression\n@@\n-foo(s, \"//\", \"/*\")\n+bar(s, \"*/\")\n",
     "package a\n\nfunc f(t string) {\n\tfoo(t, \"//\", \"/*\")\n}\n"),
    ("@@\nvar s expression\n@@\n-foo(s, \"#\", '#', `#`)\n+bar(s, \"#\")\n",
     "package a\n\nfunc f(t string) {\n\tfoo(t, \"#\", '#', `#`)\n}\n"),
    ("@@\nvar s expression\n@@\n x := \"'\"\n-foo(s, x)\n+bar(s, x)\n y := '\\''\n",
     "package a\n\nfunc f(t string) {\n\tx := \"'\"\n\tfoo(t, x)\n\ty := '\\''\n}\n"),
    ("@@\nvar s expression\n@@\n-foo(s) // it's `odd\n+bar(s) /* \" */\n",
     "package a\n\nfunc f(t string) {\n\tfoo(t)\n}\n"),
]

SAME_SIDE_TABLE = [
    ("@@\nvar x expression\n@@\n-a.Fetch(x, ...)\n+c.Get(x, ...)\n", "@@\nvar x expression\n@@\n-b.Load(x, ...)\n+c.Get(x, ...)\n",
     "package p\n\nfunc f() {\n\ta.Fetch(ctx, 1, 2)\n\tb.Load(ctx, \"b\", 3)\n}\n"),
    ("@@\n@@\n-old(...)\n+first(...)\n", "@@\n@@\n-older(...)\n+first(...)\n",
     "package p\n\nfunc f() {\n\told(1, 2)\n\tolder(3)\n\tolder()\n}\n"),
    ("@@\nvar e expression\n@@\n lock()\n ...\n-finish(e)\n+done(e)\n", "@@\nvar e expression\n@@\n lock()\n ...\n-complete(e)\n+done(e)\n",
     "package p\n\nfunc f() {\n\tlock()\n\ta()\n\tfinish(1)\n}\n\nfunc g() {\n\tlock()\n\tb()\n\tc()\n\tcomplete(2)\n}\n"),
    ("@@\n@@\n-func A(...) {\n+func A(ctx C, ...) {\n   ...\n }\n", "@@\n@@\n-func B(...) {\n+func B(ctx C, ...) {\n   ...\n }\n",
     "package p\n\nfunc A(x int) {\n\tuse(x)\n}\n\nfunc B(y, z string) {\n\tuse(y)\n\tuse(z)\n}\n"),
]

def deep_layout_pairs():
    wrappers = [("for _, c := range s.conns {", "}"), ("if c.ready {", "}"), ("switch c.kind {\ncase kindHTTP:", "}"), ("go func() {", "}()"),
                ("if err := s.pool.Submit(func() error {", "}); err != nil {\n\ts.fail(err)\n}"), ("{", "}"), ("for i := 0; i < n; i++ {", "}"),
                ("select {\ndefault:", "}"), ("defer func() {", "}()"), ("if ok := try(func() bool {", "}); ok {\n\tdone()\n}")]
    out = []
    for depth in (2, 4, 6, 8, 10, 13):
        ws = [wrappers[i % len(wrappers)] for i in range(depth)]
        ret = "return" if any(w[0].endswith(("error {", "bool {")) for w in ws[-1:]) else ""
        def nest(core_lines, mark):
            lines = []
            for i, (o, c) in enumerate(ws):
                lines += [mark + "  " * i + l for l in o.split("\n")]
            lines += core_lines(depth)
            for i, (o, c) in reversed(list(enumerate(ws))):
                lines += [mark + "  " * i + l for l in c.split("\n")]
            return lines
        body_src = "\n".join(nest(lambda d: ["\t" + "  " * d + "oldHandle(c, s.ctx, s.log)"], "\t"))
        src = f"package srv\n\nfunc (s *Server) Serve(l Listener) {{\n\ts.start()\n{body_src}\n\ts.stop()\n}}\n"
        one = lambda d: ["-  " + "  " * d + "oldHandle(conn, ...)", "+  " + "  " * d + "handle(conn, ...)"]
        two = lambda d: ["-  " + "  " * d + "oldHandle(conn,", "-  " + "  " * d + "  ...)", "+  " + "  " * d + "handle(conn,", "+  " + "  " * d + "  ...)"]
        mk = lambda core: ("@@\nvar conn expression\n@@\n func (s *Server) Serve(...) {\n   ...\n" + "\n".join(nest(core, "   ")) + "\n   ...\n }\n")
        out.append((mk(one), mk(two), src))
        # and with a few lines in front of the change that the other side does not have
        three = lambda d: ["-  " + "  " * d + "prepare()", "-  " + "  " * d + "oldHandle(conn, ...)", "+  " + "  " * d + "handle(conn, ...)"]
        four = lambda d: ["-  " + "  " * d + "prepare()", "-  " + "  " * d + "oldHandle(conn,", "-  " + "  " * d + "  ...)", "+  " + "  " * d + "handle(conn,", "+  " + "  " * d + "  ...)"]
        src2 = src.replace("oldHandle(c, s.ctx, s.log)", "prepare()\n\t" + "  " * depth + "oldHandle(c, s.ctx, s.log)")
        out.append((mk(three), mk(four), src2))
    return out

@prop("C13")
def c13(ctx):
    ctx.rule = ("for generated (patch, file) pairs the patch is re-laid-out by one of: '#' lines inserted in the metavariable section and the "
                "diff, blank lines, naming the change, consistent renaming of metavariables (not import names), regrouping/reordering "
                "declarations, writing an unchanged elision-free line as an identical -/+ pair, re-spacing the Go code identically on "
                "both sides; the real engine's canonical result on the variant must equal its result on the original (and both must "
                "equal the Lean model's). Descriptions: only the '#' run directly above the header is reported (checked through "
                "section.Split vs the model). Non-trivial = the original patch rewrites the file; distinct = distinct variant text.")
    rng = random.Random(ctx.seed)
    n = 250 if ctx.tier == "quick" else 8000
    cases = [c for c in gen_cases(ctx, "mix", n // 2, ctx.seed) if len(c.get("patches", [])) == 1]
    cases += [c for c in gen_cases(ctx, "c04", n // 2, ctx.seed + 1, golden=False) if len(c.get("patches", [])) == 1]
    batch = []
    meta_info = {}
    for i, c in enumerate(cases):
        try:
            fw = sorted(set(re.findall(r"[A-Za-z_]\w*", c["src"])))
            # every transformation in turn (three per case), so that what a case is subjected to does not drift when the
            # generator or the list of transformations grows
            variants = [layout_variant(rng, c["patches"][0], fw, t=(3 * i + j) % 9, rng2=random.Random(f"{ctx.seed}/{i}/{j}")) for j in range(3)]
        except Exception:
            continue
        batch.append({"id": f"o{i}", "patches": c["patches"], "src": c["src"]})
        for j, (text, done) in enumerate(variants):
            if done:
                batch.append({"id": f"o{i}v{j}", "patches": [text], "src": c["src"]})
                meta_info[f"o{i}v{j}"] = (f"o{i}", done)
    # the package clause of the file written as a context line on top of the body, and the code moved two blanks to the right
    # after the marker of every line: the same change
    for i, c in enumerate(cases[: (60 if ctx.tier == "quick" else 2000)]):
        pt = c["patches"][0]
        mpk = re.search(r"^package (\w+)", c["src"], re.M)
        if not mpk or re.search(r"^[-+ ]?\s*(package|import)\b", pt, re.M) or "`" in pt or "@@\n" not in pt:
            continue
        head, _, body = pt.rpartition("@@\n")
        blines = [l for l in body.split("\n")]
        moved = "\n".join((l[:1] + "  " + l[1:]) if l[:1] in "-+ " and l.strip() else l for l in blines)
        for tag, text in (("package-clause", head + "@@\n package " + mpk.group(1) + "\n\n" + body),
                          ("package-clause+code-moved-right", head + "@@\n package " + mpk.group(1) + "\n\n" + moved)):
            if f"o{i}" in {b["id"] for b in batch[-400:]} or True:
                batch.append({"id": f"o{i}p{tag}", "patches": [text], "src": c["src"]})
                meta_info[f"o{i}p{tag}"] = (f"o{i}", [tag])
    # the blank identifier among the declared names (last, first, alone on a line of its own): it declares nothing
    for i, c in enumerate(cases[: (60 if ctx.tier == "quick" else 2000)]):
        pt = c["patches"][0]
        mvar = re.search(r"(?m)^var ([\w, ]+) (expression|identifier)$", pt)
        if not mvar or "`" in pt:
            continue
        line = mvar.group(0)
        for tag, repl in (("blank-name-last", f"var {mvar.group(1)}, _ {mvar.group(2)}"), ("blank-name-first", f"var _, {mvar.group(1)} {mvar.group(2)}"),
                          ("blank-name-alone", line + "\nvar _ expression"), ("blank-name-alone-first", "var _ identifier\n" + line)):
            text = pt.replace(line, repl, 1)
            batch.append({"id": f"o{i}u{tag}", "patches": [text], "src": c["src"]})
            meta_info[f"o{i}u{tag}"] = (f"o{i}", [tag])
    # two changes whose '+' (or '-') sides are the same text, elision included: in one patch file or in two, the same result
    for ti, (c1, c2, ssrc) in enumerate(SAME_SIDE_TABLE):
        batch.append({"id": f"ss{ti}", "patches": [c1, c2], "src": ssrc})
        batch.append({"id": f"ss{ti}v", "patches": [c1 + "\n" + c2], "src": ssrc})
        meta_info[f"ss{ti}v"] = (f"ss{ti}", ["two-changes-with-the-same-side-in-one-file"])
        batch.append({"id": f"ss{ti}w", "patches": [c1 + "\n\n# next\n" + c2 + "\n"], "src": ssrc})
        meta_info[f"ss{ti}w"] = (f"ss{ti}", ["two-changes-with-the-same-side-in-one-file+comment-lines"])
        # the same number of blank lines after each of them (they belong to the text of the sides)
        for nb in (1, 2):
            batch.append({"id": f"ss{ti}b{nb}", "patches": [c1 + "\n" * nb + c2 + "\n" * nb], "src": ssrc})
            meta_info[f"ss{ti}b{nb}"] = (f"ss{ti}", [f"two-changes-with-the-same-side-in-one-file+{nb}-blank-lines-after-each"])
    # directed table: pattern lines that carry quote characters of another literal kind, comment markers inside
    # literals, the '#' of the patch language inside literals; a '#' line inserted after every line in turn
    for qi, (qp, qs) in enumerate(QUOTE_TABLE):
        batch.append({"id": f"q{qi}", "patches": [qp], "src": qs})
        qlines = qp.rstrip("\n").split("\n")
        for k in range(1, len(qlines) + 1):
            text = "\n".join(qlines[:k] + ["# a remark"] + qlines[k:]) + "\n"
            batch.append({"id": f"q{qi}v{k}", "patches": [text], "src": qs})
            meta_info[f"q{qi}v{k}"] = (f"q{qi}", [f"comment-line-after-line-{k}"])
    # directed table: a repeated metavariable spelled like a word that occurs in the code it captures
    for ri, (tmpl, rsrc) in enumerate(RENAME_TABLE):
        base_p = tmpl.replace("{M}", "zq9")
        batch.append({"id": f"r{ri}", "patches": [base_p], "src": rsrc})
        for sp in sorted(set(re.findall(r"[A-Za-z_]\w*", rsrc)) - GO_KEYWORDS - set(re.findall(r"[A-Za-z_]\w*", base_p))):
            batch.append({"id": f"r{ri}v{sp}", "patches": [tmpl.replace("{M}", sp)], "src": rsrc})
            meta_info[f"r{ri}v{sp}"] = (f"r{ri}", [f"metavariable-spelled-{sp}"])
    # changes without a line of code (everything commented out, nothing at all, blanks only), alone and next to a change that
    # applies: whether the patch is accepted does not depend on the blank lines and '#' lines around them
    strict = set()
    good_change = "@@\nvar x expression\n@@\n-foo(x)\n+bar(x)\n"
    esrc = "package a\n\nfunc f() {\n\tfoo(42)\n}\n"
    empties = {"commented-out": ["@@\n@@\n# -old(x)\n# +new(x)\n", "@@\n@@\n\n# -old(x)\n# +new(x)\n", "@@\n@@\n# -old(x)\n\n# +new(x)\n\n", "\n@@\n@@\n# -old(x)\n# +new(x)\n\n\n"],
               "nothing": ["@@\n@@\n", "@@\n@@\n\n", "@@\n@@\n\n\n\n", "@@\n@@"],
               "with-metavariables": ["@@\nvar x expression\n@@\n# gone\n", "@@\nvar x expression\n@@\n\n# gone\n\n", "@@\nvar x expression\n\n@@\n# gone\n"]}
    for ename, forms in empties.items():
        for where in ("alone", "before", "after", "between"):
            for fi, form in enumerate(forms):
                text = {"alone": form, "before": form + good_change, "after": good_change + form, "between": good_change + form + good_change}[where]
                bid = f"empty-{ename}-{where}-{fi}"
                batch.append({"id": bid, "patches": [text], "src": esrc})
                if fi > 0:
                    meta_info[bid] = (f"empty-{ename}-{where}-0", [f"blank-lines-around-a-change-without-code-{fi}"])
                    strict.add(bid)
    d = ctx.scratch("c13")
    p = os.path.join(d, "in.jsonl")
    with open(p, "w") as f:
        for b in batch:
            f.write(json.dumps(b) + "\n")
    res = run_engine_batch(ctx, ["-inputs", p], "c13")
    # however a patch is laid out, each elision is recorded where its "..." stands in the patch file (front-end chain)
    split_tie(ctx, [{"id": b["id"], "patch": b["patches"][0]} for b in batch])
    by_id = {inp["id"]: (inp, orig, impl, model, same) for inp, orig, impl, model, same in res}
    skipped = set(b["id"] for b in batch) - set(by_id)
    for vid, (oid, done) in meta_info.items():
        ctx.evaluations += 1
        ctx.count("transform:" + "+".join(done))
        if oid not in by_id:
            if vid in strict and vid in by_id:
                ctx.violation(f"a patch that is not accepted is accepted once laid out differently ({'+'.join(done)})",
                              {"input": {"original": [b for b in batch if b['id'] == oid][0]["patches"][0], "variant": by_id[vid][0]["patches"][0], "src": by_id[vid][0]["src"]}})
            continue   # the original patch is not accepted; nothing to compare
        oinp, _, oimpl, omodel, osame = by_id[oid]
        if vid not in by_id:
            ctx.violation(f"layout variant ({'+'.join(done)}) of an accepted patch is rejected",
                          {"input": {"original": oinp["patches"][0], "variant": [b for b in batch if b['id'] == vid][0]["patches"][0], "src": oinp["src"]}})
            continue
        vinp, _, vimpl, vmodel, vsame = by_id[vid]
        if any(t.startswith("k") for t in oimpl["trace"]):
            ctx.nontrivial.add(vinp["patches"][0])
        if len(ctx.samples) < 3 and any(t.startswith("k") for t in oimpl["trace"]):
            ctx.sample({"transformation": done, "original": oinp["patches"][0][:300], "variant": vinp["patches"][0][:300]})
        if (oimpl["status"], oimpl.get("tree"), oimpl.get("imports"), oimpl.get("pkg")) != (vimpl["status"], vimpl.get("tree"), vimpl.get("imports"), vimpl.get("pkg")):
            ctx.violation(f"the effect of the patch changed under the layout transformation {'+'.join(done)}",
                          {"input": {"original": oinp["patches"][0], "variant": vinp["patches"][0], "src": oinp["src"]},
                           "original_trace": oimpl["trace"], "variant_trace": vimpl["trace"]})
    # a patch given twice, verbatim and laid out anew, in every form a command line can take: applied twice either way
    patch_sources_family(ctx)
    # pairs of layouts of one patch, written out: elisions that share a patch line against one elision per line; a blank line
    # between the second @@ and a statement patch whose first line carries an elision
    LAYOUT_PAIRS = [
        ("@@\n@@\n f(foo(..., x, ...),\n-  old,\n+  new,\n )\n", "@@\n@@\n f(foo(...,\n   x,\n   ...),\n-  old,\n+  new,\n )\n",
         "package a\n\nfunc g() {\n\tf(foo(1, 2, x, 3, 4), old)\n}\n"),
        ("@@\nvar v identifier\n@@\n v := open(...)\n ...\n lock()\n ...\n-oldClose(v)\n+newClose(v)\n",
         "@@\nvar v identifier\n@@\n\n v := open(...)\n ...\n lock()\n ...\n-oldClose(v)\n+newClose(v)\n",
         "package a\n\nfunc h() {\n\tv := open(1, 2)\n\tcheck(v)\n\tlock()\n\tuse(v)\n\toldClose(v)\n\tdone()\n}\n"),
        ("@@\n@@\n-g(a(...), b(...), c(...))\n+h(c(...), b(...), a(...))\n", "@@\n@@\n-g(a(...),\n-  b(...),\n-  c(...))\n+h(c(...),\n+  b(...),\n+  a(...))\n",
         "package a\n\nfunc k() {\n\tg(a(1), b(2, 3), c())\n}\n"),
        ("@@\n@@\n foo(..., ...)\n ...\n-bar(...)\n+baz(...)\n", "@@\n@@\n\n\n foo(...,\n   ...)\n ...\n-bar(...)\n+baz(...)\n",
         "package a\n\nfunc m() {\n\tfoo(1, 2)\n\tmid()\n\tbar(3)\n}\n"),
        ("@@\nvar f identifier\n@@\n-func f(name string, args ...string) {\n+func f(name string, args ...any) {\n ...\n }\n",
         "@@\nvar f identifier\n@@\n-func f(name string, args ...\n-  string) {\n+func f(name string, args ...\n+  any) {\n ...\n }\n",
         "package a\n\nfunc logf(name string, args ...string) {\n\tuse(name, args)\n}\n"),
        ("@@\n@@\n-var h = func(xs ...int) int { return 0 }\n+var h = func(xs ...int64) int64 { return 0 }\n",
         "@@\n@@\n-var h = func(xs ...\n-  int) int { return 0 }\n+var h = func(xs ...\n+  int64) int64 { return 0 }\n",
         "package a\n\nvar h = func(xs ...int) int { return 0 }\n"),
    ]
    # the same for elisions that stand deep inside the pattern (statements nested in loops, conditions, switches, closures), where
    # the '-' and the '+' line differ in length before the elision
    LAYOUT_PAIRS = LAYOUT_PAIRS + deep_layout_pairs()
    lp = []
    for k, (pa, pb, src) in enumerate(LAYOUT_PAIRS):
        lp += [{"id": f"lp{k}a", "patches": [pa], "src": src}, {"id": f"lp{k}b", "patches": [pb], "src": src}]
    lres = {r[0]["id"]: r for r in run_engine_batch(ctx, ["-inputs", write_jsonl(ctx, lp)], "c13pairs")}
    for k, (pa, pb, src) in enumerate(LAYOUT_PAIRS):
        ctx.evaluations += 1
        ctx.count("layout_pairs")
        ctx.nontrivial.add(pa + pb)
        ra, rb = lres.get(f"lp{k}a"), lres.get(f"lp{k}b")
        if ra is None or rb is None or (ra[2]["status"], ra[2].get("tree")) != (rb[2]["status"], rb[2].get("tree")) or ra[2]["status"] != "ok" \
                or not any(t.startswith("k") for t in ra[2]["trace"]) or (ra[3]["status"], ra[3].get("tree")) != (ra[2]["status"], ra[2].get("tree")):
            ctx.violation("two layouts of one patch have different effects (or the effect differs from the specification's)",
                          {"input": {"original": pa, "variant": pb, "src": src},
                           "original_trace": ra[2]["trace"] if ra else None, "variant_trace": rb[2]["trace"] if rb else None})
    # naming the changes of a patch with several changes: every name the first header accepts is accepted in every header and
    # changes nothing (identifiers, identifiers that are Go keywords or predeclared names, compact headers)
    two = ("{H1}\nvar x expression\n@@\n-foo(x)\n+bar(x)\n\n{H2}\nvar y expression\n@@\n-return y, nil\n+return y, errNone\n\n{H3}\n@@\n-qux()\n+quux()\n")
    nsrc = "package a\n\nfunc f() (int, error) {\n\tfoo(1)\n\tqux()\n\treturn g(2), nil\n}\n"
    NAMES = ["call", "return", "type", "import", "func", "var", "nil", "true", "int", "_", "x1", "go", "package", "Ünï"]
    named = [{"id": "n-plain", "patches": [two.format(H1="@@", H2="@@", H3="@@")], "src": nsrc}]
    for nm in NAMES:
        for which in range(4):
            hs = [f"@ {nm} @" if which in (k, 3) else "@@" for k in range(3)]
            named.append({"id": f"n-{nm}-{which}", "patches": [two.format(H1=hs[0], H2=hs[1], H3=hs[2])], "src": nsrc})
        named.append({"id": f"n-{nm}-c", "patches": [two.format(H1=f"@{nm}@", H2=f"@ {nm}@", H3=f"@{nm} @")], "src": nsrc})
    nres = {r[0]["id"]: r for r in run_engine_batch(ctx, ["-inputs", write_jsonl(ctx, named)], "c13names")}
    ref = nres.get("n-plain")
    for b in named[1:]:
        ctx.evaluations += 1
        ctx.count("named_change_layouts")
        ctx.nontrivial.add(b["patches"][0])
        r = nres.get(b["id"])
        if ref is None or r is None or (r[2]["status"], r[2].get("tree")) != (ref[2]["status"], ref[2].get("tree")) or r[2]["status"] != "ok":
            ctx.violation(f"naming the changes ({b['id']}) changes the effect of the patch or makes it unloadable: "
                          f"{(r[2]['status'] if r else 'rejected')} vs {(ref[2]['status'] if ref else 'rejected')}",
                          {"input": {"original": named[0]["patches"][0], "variant": b["patches"][0], "src": nsrc}})
    # descriptions: '#' runs directly above the header only (section.Split vs model)
    fcs = []
    def decorated(c):
        desc, header, meta, body = split_patch_text(c["patches"][0])
        extra = [rng.choice(["# above one", "#above two", "   #   spaced  "]) for _ in range(rng.randint(0, 2))]
        tail = ["# after the body"] if rng.random() < 0.5 else []
        lines = extra + desc + [header] + ["# in meta"] + meta + ["@@"] + body[:1] + ["# in body"] + body[1:] + tail
        want = [re.sub(r"^\s*#", "", l, count=1).strip() if not l.startswith(" ") else l[1:].strip() for l in extra + desc]
        return lines, want
    sub = [c for c in cases if sum(1 for l in c["patches"][0].split("\n") if l.startswith("@")) == 2][: (80 if ctx.tier == "quick" else 2000)]
    for i, c in enumerate(sub):
        lines, want = decorated(c)
        wants = [want]
        if i % 2 == 1:
            # a second change after the first: '#' lines inside or after the first change that are not directly
            # above the second header (a blank or code line follows them) belong to nobody
            l2, w2 = decorated(sub[(i * 7 + 3) % len(sub)])
            sep = [""] if rng.random() < 0.7 or not lines[-1].startswith("#") else []
            if not sep:
                # every '#' line of the unbroken run that ends the first change stands directly above the second header
                run = []
                for l in reversed(lines):
                    if not l.strip().startswith("#"):
                        break
                    run.insert(0, re.sub(r"^\s*#", "", l, count=1).strip())
                w2 = run + w2
            lines = lines + sep + l2
            wants.append(w2)
        fcs.append({"id": f"d{i}", "patch": "\n".join(lines) + "\n", "want": wants})
    split_tie(ctx, fcs)
    for c, impl, model in run_front(ctx, fcs):
        ctx.evaluations += 1
        sx = parse_sx(impl)
        chs = sx_field(sx[2:], "changes") or []
        got = [[cl.sx_unquote(x) for x in (sx_field(ch[1:], "comments") or [])] for ch in chs] if chs else None
        msx = parse_sx(model)
        mchs = sx_field(msx[2:], "changes") or []
        mgot = [[cl.sx_unquote(x) for x in (sx_field(ch[1:], "comments") or [])] for ch in mchs] if mchs else None
        ctx.count("description_cases:" + str(len(c["want"])))
        if got != mgot:
            ctx.violation(f"description lines {got} differ from the specification {mgot}", {"input": {"patch": c["patch"]}})
        elif got is not None and got != c["want"]:
            ctx.violation(f"descriptions {got}: expected exactly the '#' lines directly above each header {c['want']}", {"input": {"patch": c["patch"]}})

# --- C08 -------------------------------------------------------------------
ILL_TYPED = [(p_, b_) for p_, b_, g_ in CRASHERS] + [
    ("@@\nvar x expression\n@@\n-foo(x)\n+bar.x\n", "package a\n\nfunc f() { foo(g(1)) }\n"),
    ("@@\nvar x expression\n@@\n+x = bar(...)\n-x = foo(...)\n", "package a\n\nfunc f() { x = foo(1, 2) }\n"),
    ("@@\nvar x expression\n@@\n-foo(x)\n+bar(... + x)\n", "package a\n\nfunc f() { foo(1) }\n"),
    ("@@\nvar x expression\n@@\n-foo(x)\n+func x() {}\n", "package a\n\nfunc f() { foo(g(1)) }\n"),
    ("@@\nvar x expression\n@@\n-foo(x)\n+goto x\n", "package a\n\nfunc f() { foo(g(1)) }\n"),
    ("@@\nvar x expression\n@@\n-foo(x)\n+T{x: 1}.x\n", "package a\n\nfunc f() { foo(g(1)) }\n"),
    ("@@\nvar x expression\n@@\n-import \"fmt\"\n+import x \"fmt\"\n\n-foo(x)\n+bar(x)\n", "package a\n\nimport \"fmt\"\n\nfunc f() { foo(g(1)); fmt.Println() }\n"),
    ("@@\nvar x identifier\n@@\n-break x\n+continue x\n", "package a\n\nfunc f() {\n\tfor {\n\t\tbreak\n\t}\n}\n"),
    ("@@\nvar x expression\n@@\n-return x\n+return x, ...\n", "package a\n\nfunc f() int { return 1 }\n"),
    ("@@\n@@\n-foo(...)\n+bar(..., ...)\n", "package a\n\nfunc f() { foo(1, 2) }\n"),
    ("@@\n@@\n for ... {\n-  foo()\n+  for ... { bar() }\n }\n", "package a\n\nfunc f() { for i := 0; i < 3; i++ { foo() } }\n"),
    ("@@\n@@\n+for ... { bar() }\n-for ... { foo() }\n", "package a\n\nfunc f() { for i := 0; i < 3; i++ { foo() } }\n"),
    ("@@\nvar x expression\n@@\n-x\n+y\n", "package a\n\nimport \"fmt\"\n\nfunc f(a int) { fmt.Println(a) }\n"),
    ("@@\nvar x identifier\n@@\n-x\n+x.y\n", "package a\n\nfunc f(a int) { _ = a }\n\ntype T struct{ a int }\n"),
    # an elision on the '+' side only: there is nothing it could stand for
    ("@@\nvar x expression\n@@\n-foo(x)\n+bar(x, ...)\n", "package a\n\nfunc f() { foo(1) }\n"),
    ("@@\nvar x expression\n@@\n-foo(x)\n+bar(..., x)\n", "package a\n\nfunc f() { foo(1) }\n"),
    ("@@\n@@\n-type T struct{}\n+type T struct{ ... }\n", "package a\n\ntype T struct{}\n"),
    ("@@\nvar f identifier\n@@\n-func f() {}\n+func f(...) {}\n", "package a\n\nfunc g() {}\n"),
    ("@@\n@@\n-if ok {\n-  foo()\n-}\n+if ok {\n+  ...\n+}\n", "package a\n\nfunc f() {\n\tif ok {\n\t\tfoo()\n\t}\n}\n"),
    ("@@\nvar x expression\n@@\n+bar(x, ...)\n-foo(x)\n", "package a\n\nfunc f() { foo(1) }\n"),
    # an ill-typed change after one that succeeded, and before one that would
    ("@@\nvar x expression\n@@\n-foo(x)\n+bar(x)\n\n@@\nvar y expression\n@@\n-y = baz(...)\n+... = y\n", "package a\n\nfunc f() {\n\tfoo(1)\n\ty = baz()\n}\n"),
    ("@@\nvar y expression\n@@\n-y = baz(...)\n+... = y\n\n@@\nvar x expression\n@@\n-foo(x)\n+bar(x)\n", "package a\n\nfunc f() {\n\tfoo(1)\n\ty = baz()\n}\n"),
    ("@@\nvar x expression\n@@\n-foo(x)\n+bar(x)\n\n@@\n@@\n-qux(...)\n+v = ...\n\n@@\nvar x expression\n@@\n-bar(x)\n+baz(x)\n", "package a\n\nfunc f() {\n\tfoo(1)\n\tqux()\n}\n"),
    ("@@\nvar x expression\n@@\n-foo(x)\n+bar(x)\n\n@@\nvar x expression\n@@\n-sel(x)\n+pkg.x\n", "package a\n\nfunc f() {\n\tfoo(1)\n\tsel(g(2))\n}\n"),
    # elisions that stand for nothing, reproduced where the syntax needs at least one element
    ("@@\n@@\n-foo(...)\n+bar = ...\n", "package a\n\nfunc f() {\n\tfoo()\n\tfoo(1)\n}\n"),
    ("@@\n@@\n-foo(...)\n+bar := ...\n", "package a\n\nfunc f() {\n\tfoo()\n}\n"),
    ("@@\n@@\n-foo(...)\n+..., x = bar()\n", "package a\n\nfunc f() {\n\tfoo()\n}\n"),
    ("@@\n@@\n-foo(...)\n+var v = ...\n", "package a\n\nfunc f() {\n\tfoo()\n}\n"),
    ("@@\n@@\n-foo(...)\n+go ...\n", "package a\n\nfunc f() {\n\tfoo()\n}\n"),
    ("@@\n@@\n-foo(...)\n+bar[...]\n", "package a\n\nfunc f() {\n\tfoo()\n}\n"),
    ("@@\n@@\n-foo(...)\n+switch ... {\n+}\n", "package a\n\nfunc f() {\n\tfoo()\n}\n"),
    ("@@\n@@\n-foo(...)\n+bar = ...\n\n@@\nvar y expression\n@@\n-bar = y\n+baz(y)\n", "package a\n\nfunc f() {\n\tfoo()\n\tbar = 1\n}\n"),
    ("@@\n@@\n type T struct {\n-  ...\n+  x, ... int\n }\n", "package a\n\ntype T struct {\n}\n"),
    ("@@\n@@\n-func f(...) {\n+func f(a ...) {\n ...\n }\n", "package a\n\nfunc f() {\n}\n"),
]
TRUNC = ["-func", "-func (", "-foo(func(", "+func() { var x int }", "-type", "-var", "-x := func(a", "-if", "-for ... {", "-switch x {", "-foo(", "-foo(...",
         "-a.", "-[]", "-struct {", "-map[", "-\"unterminated", "-'", "-`raw", "-/* comment", "-import", "-import (", "-package", "-func (r", "-func f(a, ...",
         "-go", "-defer", "-return ...", "-case x:", "-{", "-}", "-)", "-...", "-... ...", "-x...", "-...x", "-@", "-#", "-func f[", "-func f[T any", "-type T[", "-<-"]

# complete pattern bodies, one per syntactic shape the "..." scanner has to walk through; every byte prefix of each is a case
RICH = ["-func Keys[S ~[]E, E any](s S, f func(E) bool) (out []E, err error) { return nil, nil }",
        "-func Map[K comparable, V map[K][]int](m V, ...) [4]V { ... }",
        "-func (r *G[K, V]) Get(k K, opts ...Option) (V, bool) { ... }",
        "-func f(a, b int, fn func(x int, ...) (int, error), ch <-chan struct{ X [2]int }) { for ... { ... } }",
        "-type T[K comparable, V any] struct { m map[K][]V `json:\"m\"`; f func(...) }",
        "-var x = map[string][]func(int, ...string) error{\"a\": nil, ...}",
        "-x := []struct{ a, b int }{{1, 2}, ...}[0].a + f(g(h(...), ...), ...)",
        "-select { case v := <-ch: foo(v, ...); default: ... }",
        "-switch v := x.(type) { case []int, map[K]V: ...; case interface{ M(...) }: foo(...) }",
        "-L: for i, v := range f(...) { if v { continue L }; go func(...) { ... }(i, ...) }",
        "-const ( a = iota; b [3]int = [...]int{1, 2, 3}[0] )",
        "-defer func() { recover(); ... }()",
        "-import ( \"fmt\"; x \"os\" )\n-foo(...)",
        "-package p\n-func (T) M(...) (..., error) { return ..., nil }"]

def deep_cases():
    pat = "@@\nvar x expression\n@@\n-foo(x)\n+bar(x)\n"
    head = "package a\n\nfunc f() {\n\tfoo(1)\n}\n\n"
    out = []
    for depth in (24, 64):
        out.append((pat, head + "var v = " + "id(" * depth + "1" + ")" * depth + "\n"))
        out.append((pat, head + "func g() {\n" + "".join("\t" * (i + 1) + "if c {\n" for i in range(depth)) + "".join("\t" * (depth - i) + "}\n" for i in range(depth)) + "}\n"))
        out.append((pat, head + "var v = " + "(" * depth + "1" + ")" * depth + "\n"))
        out.append((pat, head + "var v = " + "[]any{" * depth + "}" * depth + "\n"))
        out.append((pat, head + "var v = " + "func() { _ = " * depth + "1" + " }" * depth + "\n"))
        out.append((pat, head + "type T " + "struct{ a " * depth + "int" + " }" * depth + "\n"))
        out.append((pat, head + "var v = " + "*" * depth + "p\n"))
        # F31: two rewritten neighbours that differ only at the innermost place of deeply nested lists (call arguments, literal
        # elements, statement blocks): telling which old element became which new one compared such a pair again at every level
        for mk in (lambda leaf: "g(" * depth + leaf + ")" * depth, lambda leaf: "[]any{" * depth + leaf + "}" * depth,
                   lambda leaf: "func() { h(" * depth + leaf + ") }" * depth, lambda leaf: "g(0, " * depth + leaf + ", 1)" * depth):
            out.append((pat, f"package a\n\nfunc f() {{\n\tfoo({mk('aa')})\n\tfoo({mk('ab')})\n\tfoo({mk('ac')})\n}}\n"))
            out.append(("@@\nvar x expression\n@@\n-foo(x, x)\n+bar(x)\n", f"package a\n\nfunc f() {{\n\tfoo({mk('aa')}, {mk('aa')})\n\tfoo({mk('aa')}, {mk('ab')})\n}}\n"))
    out.append((pat, head + "var v = " + " + ".join(["a"] * 3000) + "\n"))
    out.append((pat, head + "func g() {\n" + "\tuse(1)\n" * 5000 + "}\n"))
    out.append((pat, head + "var v = f(" + ", ".join(str(i) for i in range(5000)) + ")\n"))
    out.append(("@@\n@@\n-foo(...)\n+bar(...)\n", "package a\n\nfunc f() {\n\tfoo(" + ", ".join("g(" + str(i) + ")" for i in range(2000)) + ")\n}\n"))
    out.append(("@@\nvar x expression\n@@\n x\n ...\n-foo(x)\n+bar(x)\n", "package a\n\nfunc f() {\n" + "\tuse(1)\n" * 400 + "\tfoo(1)\n}\n"))
    return out

TARGET_ARGS = [["nosuch.go"], ["a.go", "nosuch.go"], ["nosuch.go", "a.go"], ["./missing/..."], ["a.go", "missing/sub/..."], ["nosuch"], [""], ["a.go", ""],
               ["dir.go"], ["dir.go/..."], ["dangling.go"], ["a.go", "dangling.go"], ["loop"], ["loop/..."], ["empty"], ["empty/..."], ["notgo.txt"],
               ["a.go/"], ["a.go/..."], ["a.go/x.go"], ["x" * 300 + ".go"], ["d/" * 2100 + "x.go"], ["..."], ["/..."[1:]], ["/nonexistent-root/x.go"],
               ["locked/../nosuch.go"], ["./a.go", "./././nosuch/../a.go"], ["-"], ["--", "nosuch.go"], ["a.go", "a.go", "nosuch.go", "nosuch.go"]]

UPWARD_ARGS = [["../../../a.go"], ["../../.."], ["../../../dir.go/..."], ["../../../a.go", "../../../nosuch.go"], ["../../../locked/x.go", "."], ["../../../../../../../../../../nosuch.go"]]

def patient_gopatch(ctx, cwd, args):
    """a run of the binary that has to end promptly: 30 s, and once more on its own with 240 s before it counts as not ending (the
    machine may be busy: the checks run sixteen at a time, possibly next to other work; what is looked for are runs that take
    minutes or for ever, like F31's)"""
    code, out, err = cl.gopatch(ctx.gopatch, cwd, args, timeout=30)
    if code == "timeout":
        ctx.count("slow_runs_repeated")
        code, out, err = cl.gopatch(ctx.gopatch, cwd, args, timeout=240)
    return code, out, err

def mutate_bytes(rng, s):
    b = bytearray(s.encode())
    for _ in range(rng.randint(1, 3)):
        k = rng.randrange(4)
        pos = rng.randrange(len(b) + 1)
        if k == 0 and b:
            del b[pos % len(b)]
        elif k == 1:
            b[pos:pos] = rng.choice([b"(", b")", b"{", b"}", b"...", b"@", b"@@\n", b"\"", b"func ", b"\x00", b"\xff", b"#", b"\n", b"[", b"`", b"'"])
        elif k == 2 and b:
            b[pos % len(b)] = rng.randrange(256)
        else:
            b = b[:pos]
    return b.decode("utf-8", "surrogateescape")

@prop("C08")
def c08(ctx):
    library_reuse_family(ctx, "C08: no call crashes or hangs, also after a call that failed or panicked inside")
    ctx.rule = ("patches: (a) a table of truncated bodies (every prefix shape that starts a parameter list, block, literal, comment), "
                "(b) every prefix (step 7 bytes) of valid generated patches, (c) byte-mutated valid patches (insert/delete/replace with "
                "brackets, quotes, '...', '@@', NUL, 0xff), (d) a table of well-formed but ill-typed patches (expression metavariable in a "
                "name position, elision moved between list kinds, '...' outside a list, metavariable as import name, nested for-dots); each "
                "crossed with its own source file. Every case runs through patch.Parse + Apply in the harness (panics recovered and "
                "reported, batches under a wall-clock limit, a batch that exceeds it is bisected to the hanging case) and a sample "
                "through the CLI binary under timeout. The engine outcome class (ok / error) is also compared with the Lean model. "
                "Non-trivial = the patch is not accepted-and-unmatched; distinct = distinct patch text.")
    rng = random.Random(ctx.seed)
    base = [c for c in gen_cases(ctx, "mix", 120 if ctx.tier == "quick" else 3000, ctx.seed) if len(c.get("patches", [])) == 1]
    cases = []
    for k, t in enumerate(TRUNC):
        cases.append({"id": f"trunc{k}", "patches": ["@@\n@@\n" + t + "\n"], "src": "package a\n\nfunc f() { foo(1) }\n"})
        cases.append({"id": f"truncp{k}", "patches": ["@@\n@@\n-foo(1)\n+" + t[1:] + "\n"], "src": "package a\n\nfunc f() { foo(1) }\n"})
    for k, (p, s) in enumerate(ILL_TYPED):
        cases.append({"id": f"ill{k}", "patches": [p], "src": s})
    # the witnesses of the crashes and hangs that were repaired (F31, F32): regression inputs, through the library and the binary
    for kf in common.load_known():
        w = kf.get("witness") if isinstance(kf.get("witness"), dict) else {}
        if kf.get("property") == "C08" and isinstance(w.get("patches"), list) and isinstance(w.get("src"), str):
            cases.append({"id": f"ill-{kf['id']}", "patches": w["patches"][:1], "src": w["src"]})
    for k, t in enumerate(RICH):
        for cut in range(2, len(t) + 1):
            cases.append({"id": f"rich{k}_{cut}", "patches": ["@@\n@@\n" + t[:cut] + "\n"], "src": "package a\n\nfunc f() { foo(1) }\n"})
    # small files that are deep or long in one dimension: anything super-linear in the nesting depth shows as a hang
    for k, (dp, ds) in enumerate(deep_cases()):
        cases.append({"id": f"deep{k}", "patches": [dp], "src": ds})
    for i, c in enumerate(base):
        cases.append({"id": f"gen{i}", "patches": c["patches"], "src": c["src"]})
    nb = 40 if ctx.tier == "quick" else 1500
    for i, c in enumerate(base[:nb]):
        p = c["patches"][0]
        for cut in range(3, len(p), 7 if ctx.tier == "quick" else 3):
            cases.append({"id": f"pre{i}_{cut}", "patches": [p[:cut]], "src": c["src"]})
        for j in range(6 if ctx.tier == "quick" else 20):
            cases.append({"id": f"mut{i}_{j}", "patches": [mutate_bytes(rng, p)], "src": c["src"]})
    # (e) the same patches with other line endings and tails: CRLF throughout (cut after every byte, so also between the CR and the
    # LF of every line), lone CR, a tail of CR / NUL / BOM / form feed / no newline at all, a byte order mark in front
    for i, c in enumerate([{"patches": [p], "src": s} for p, s in REPEAT_TABLE[:3]] + base[: (6 if ctx.tier == "quick" else 120)]):
        p = c["patches"][0]
        crlf = p.replace("\n", "\r\n")
        for cut in range(1, len(crlf) + 1):
            if crlf[cut - 1] in "\r\n" or cut % 5 == 0:
                cases.append({"id": f"crlf{i}_{cut}", "patches": [crlf[:cut]], "src": c["src"]})
        for j, v in enumerate((p.replace("\n", "\r"), p + "\r", p.rstrip("\n"), p.rstrip("\n") + "\r", p + "\x00", p + "\ufeff", "\ufeff" + p,
                               p + "\x0c", p + "\r\r\n", p.replace("\n", "\n\r"), p + "\u2028", p.replace("\n", "\r\n", 1), p + "@@\r", p + "@@")):
            cases.append({"id": f"tail{i}_{j}", "patches": [v], "src": c["src"]})
    # run in batches with a watchdog
    def run_batch(batch, limit):
        d = ctx.scratch("c08")
        pth = os.path.join(d, "in.jsonl")
        with open(pth, "w") as f:
            for c in batch:
                f.write(json.dumps(c) + "\n")
        try:
            r = subprocess.run([ctx.harness, "api", "-inputs", pth, "-rep", "0"], stdout=subprocess.PIPE, stderr=subprocess.PIPE,
                               text=True, timeout=limit, env=dict(os.environ, GOMEMLIMIT="2GiB"))
        except subprocess.TimeoutExpired:
            shutil.rmtree(d, ignore_errors=True)
            return None
        shutil.rmtree(d, ignore_errors=True)
        if r.returncode != 0:
            return "crash:" + r.stderr[-1500:]
        return [json.loads(l) for l in r.stdout.splitlines() if l.strip()]
    def explore(batch, limit):
        out = run_batch(batch, limit)
        if isinstance(out, list):
            return [(c, o) for c, o in zip(batch, out)]
        if len(batch) == 1:
            return [(batch[0], {"hang": out is None, "crash": out if isinstance(out, str) else ""})]
        mid = len(batch) // 2
        return explore(batch[:mid], max(10, limit // 2)) + explore(batch[mid:], max(10, limit // 2))
    chunks = [cases[i:i + 400] for i in range(0, len(cases), 400)]
    with ThreadPoolExecutor(max_workers=8) as ex:
        results = [r for rs in ex.map(lambda b: explore(b, 120), chunks) for r in rs]
    for c, o in results:
        ctx.evaluations += 1
        kind = re.sub(r"\d+(_\d+)?$", "", c["id"])
        if o.get("skipped"):
            continue
        if o.get("hang") or o.get("crash"):
            ctx.violation("gopatch does not terminate on this patch" if o.get("hang") else "the process crashed: " + o.get("crash", "")[-300:],
                          {"input": {"patches": c["patches"], "src": c["src"]}, "reproduce": "gopatch -p p.patch a.go (or patch.Parse + Apply)"})
            continue
        ctx.count(kind + ":" + ("panic" if o.get("panic") else "parse_err" if o.get("parse_err") else "err" if o.get("err") else "ok"))
        if o.get("parse_err") or o.get("err") or o.get("panic"):
            ctx.nontrivial.add(c["patches"][0])
        if len(ctx.samples) < 4 and (o.get("parse_err") or o.get("err")) and kind in ("ill", "trunc", "mut"):
            ctx.sample({"patch": c["patches"][0][:200], "outcome": (o.get("parse_err") or o.get("err"))[:160]})
        if o.get("panic"):
            ctx.violation("panic: " + o["panic"][:300], {"input": {"patches": c["patches"], "src": c["src"]},
                                                         "reproduce": "patch.Parse(\"p.patch\", patch) then Apply(\"a.go\", src)"})
    # CLI sample under timeout
    sample = [c for c in cases if c["id"].startswith(("trunc", "ill", "deep"))] + rng.sample(cases, min(len(cases), 40 if ctx.tier == "quick" else 600))
    def cli_one(c):
        root = ctx.scratch("c08cli")
        with open(os.path.join(root, "p.patch"), "wb") as f:
            f.write(c["patches"][0].encode("utf-8", "surrogateescape"))
        with open(os.path.join(root, "a.go"), "w") as f:
            f.write(c["src"])
        code, out, err = patient_gopatch(ctx, root, ["-p", "p.patch", "--print-only", "a.go"])
        shutil.rmtree(root, ignore_errors=True)
        return c, code, err.decode("utf-8", "replace")
    with ThreadPoolExecutor(max_workers=16) as ex:
        for c, code, err in ex.map(cli_one, sample):
            ctx.evaluations += 1
            if code == "timeout":
                ctx.violation("the gopatch binary did not terminate within 240 s", {"input": {"patches": c["patches"], "src": c["src"]}})
            elif code not in (0, 1) or "panic:" in err or "goroutine " in err:
                ctx.violation(f"the gopatch binary crashed (exit {code}): {err[-300:]}", {"input": {"patches": c["patches"], "src": c["src"]}})
            elif code == 1 and not err.strip():
                ctx.violation("non-zero exit without a diagnostic", {"input": {"patches": c["patches"], "src": c["src"]}})
    # the other ways a patch reaches the parser: a list of patch files (-P) with every odd line a list may hold, and stdin
    good = "@@\nvar x expression\n@@\n-foo(x)\n+bar(x)\n"
    LISTS = ["p.patch\n", "p.patch", "\np.patch\n\n", "  \np.patch\n", "\t\n", " ", "\r\n", "p.patch\r\n\r\n", "# a comment\np.patch\n",
             "#\n", "p.patch\n   \n", "  p.patch  \n", "p.patch\n\x00\n", "\xff\xfe\n", "missing.patch\n", "p.patch\np.patch\n", ".\n", "/\n",
             "p.patch\n" * 40, "\n" * 200, " " * 5000 + "\n"]
    def list_one(k):
        root = ctx.scratch("c08list")
        cl.write_tree(root, {"p.patch": good, "a.go": "package a\n\nfunc f() { foo(1) }\n"})
        with open(os.path.join(root, "list.txt"), "wb") as f:
            f.write(LISTS[k].encode("latin-1"))
        code, out, err = patient_gopatch(ctx, root, ["-P", "list.txt", "--print-only", "a.go"])
        # the same patch text on stdin, cut at every tenth byte
        res = [("-P " + repr(LISTS[k][:40]), code, err.decode("utf-8", "replace"))]
        shutil.rmtree(root, ignore_errors=True)
        return res
    def stdin_one(cut):
        root = ctx.scratch("c08in")
        cl.write_tree(root, {"a.go": "package a\n\nfunc f() { foo(1) }\n"})
        try:
            r = subprocess.run([ctx.gopatch, "--print-only", "a.go"], cwd=root, input=good[:cut].encode(), stdout=subprocess.PIPE,
                               stderr=subprocess.PIPE, timeout=240)
            res = [(f"stdin, first {cut} bytes of a valid patch", r.returncode, r.stderr.decode("utf-8", "replace"))]
        except subprocess.TimeoutExpired:
            res = [(f"stdin, first {cut} bytes of a valid patch", "timeout", "")]
        shutil.rmtree(root, ignore_errors=True)
        return res
    with ThreadPoolExecutor(max_workers=16) as ex:
        outcomes = list(ex.map(list_one, range(len(LISTS)))) + list(ex.map(stdin_one, range(0, len(good) + 1, 3)))
    for res in outcomes:
        for what, code, err in res:
            ctx.evaluations += 1
            ctx.count("patch_sources_other_than_-p")
            ctx.nontrivial.add("src:" + what)
            if code == "timeout":
                ctx.violation(f"the gopatch binary did not terminate within 240 s ({what})", {"input": {"how": what, "patch": good}})
            elif code not in (0, 1) or "panic:" in err or "goroutine " in err:
                ctx.violation(f"the gopatch binary crashed (exit {code}) on {what}: {err[-300:]}", {"input": {"how": what, "patch": good}})
            elif code == 1 and not err.strip():
                ctx.violation(f"non-zero exit without a diagnostic on {what}", {"input": {"how": what, "patch": good}})
    # target arguments that cannot be processed: missing, not what they seem, too long, unreadable - alone and next to a good one
    def target_one(k):
        args = TARGET_ARGS[k]
        root = ctx.scratch("c08tgt")
        cl.write_tree(root, {"p.patch": good, "a.go": "package a\n\nfunc f() { foo(1) }\n", "dir.go/inner.go": "package d\n\nfunc g() { foo(2) }\n",
                             "empty/.keep": "", "notgo.txt": "foo(1)\n"})
        os.symlink("nowhere.go", os.path.join(root, "dangling.go"))
        os.symlink("loop", os.path.join(root, "loop"))
        os.makedirs(os.path.join(root, "locked"))
        with open(os.path.join(root, "locked", "x.go"), "w") as f:
            f.write("package l\n\nfunc h() { foo(3) }\n")
        code, out, err = patient_gopatch(ctx, root, ["-p", "p.patch", "--print-only"] + args)
        res = [("targets " + " ".join(a[:40] for a in args), code, err.decode("utf-8", "replace"))]
        if k < len(UPWARD_ARGS):
            # the same tree seen from a directory deep inside it: targets that climb out of the working directory
            deep = os.path.join(root, "deep", "deeper", "and-deeper-still-so-that-the-way-up-is-long")
            os.makedirs(deep)
            for flags in (["--print-only"], ["--diff"], []):
                c2, o2, e2 = patient_gopatch(ctx, deep, ["-p", os.path.join(root, "p.patch")] + flags + UPWARD_ARGS[k])
                res.append((f"targets {' '.join(UPWARD_ARGS[k])} {' '.join(flags)} from three directories down", c2, e2.decode("utf-8", "replace")))
        shutil.rmtree(root, ignore_errors=True)
        return res
    with ThreadPoolExecutor(max_workers=16) as ex:
        touts = list(ex.map(target_one, range(len(TARGET_ARGS))))
    for res in touts:
        for what, code, err in res:
            ctx.evaluations += 1
            ctx.count("target_arguments")
            ctx.nontrivial.add("tgt:" + what)
            if code == "timeout":
                ctx.violation(f"the gopatch binary did not terminate within 240 s ({what})", {"input": {"how": what, "patch": good}})
            elif code not in (0, 1) or "panic:" in err or "goroutine " in err:
                ctx.violation(f"the gopatch binary crashed (exit {code}) on {what}: {err[-300:]}", {"input": {"how": what, "patch": good}})
            elif code == 1 and not err.strip():
                ctx.violation(f"non-zero exit without a diagnostic on {what}", {"input": {"how": what, "patch": good}})
    # parentheses written around a metavariable, over code that is parenthesised already (and not): nested parentheses in
    # what is generated; the run ends, with the tree the model predicts
    pcases = []
    psrc = ("package a\n\nfunc f() bool {\n\tif !(a && b) {\n\t\treturn !c\n\t}\n\tuse(neg((x + y)), neg(((z))), neg(w))\n"
            "\treturn !((a)) || !(f)(1)\n}\n")
    for k, (m_, p_) in enumerate([("!x", "(x) == false"), ("!x", "((x))"), ("neg(x)", "(x)"), ("neg(x)", "-(x)"), ("neg(x)", "((x) * 2)"),
                                  ("neg(x)", "twice((x), (x))"), ("!x", "not((((x))))")]):
        pcases.append({"id": f"paren{k}", "patches": [f"@@\nvar x expression\n@@\n-{m_}\n+{p_}\n"], "src": psrc})
    pres = run_engine_batch(ctx, ["-inputs", write_jsonl(ctx, pcases)], "c08paren")
    ctx.count("parenthesised_metavariable_cases", len(pres))
    engine_projection(ctx, pres, {"status", "decisions"})
    cli_projection(ctx, pres, {"status"}, len(pres))
    # the "..." scanner (augment.find/rewrite) vs the Lean model Fnd.find/rewrite, incl. truncated input
    def sides(patch):
        try:
            _, _, _, body = split_patch_text(patch)
        except Exception:
            return []
        minus = "\n".join(l[1:] if l[:1] in "- " else l for l in body if l[:1] != "+") + "\n"
        plus = "\n".join(l[1:] if l[:1] in "+ " else l for l in body if l[:1] != "-") + "\n"
        return [minus, plus]
    acases = []
    for k, t in enumerate(TRUNC):
        acases.append({"id": f"at{k}", "patch": t[1:]})
        acases.append({"id": f"atn{k}", "patch": t[1:] + "\n"})
    for k, t in enumerate(RICH):
        body = "\n".join(l[1:] for l in t.split("\n")) + "\n"
        for cut in range(1, len(body) + 1):
            acases.append({"id": f"ar{k}_{cut}", "patch": body[:cut]})
    for i, c in enumerate(base[: (60 if ctx.tier == "quick" else 2000)]):
        for j, side in enumerate(sides(c["patches"][0])):
            acases.append({"id": f"as{i}_{j}", "patch": side})
            for cut in range(1, len(side), 5 if ctx.tier == "quick" else 2):
                acases.append({"id": f"ap{i}_{j}_{cut}", "patch": side[:cut]})
    d = ctx.scratch("aug")
    pth = os.path.join(d, "in.jsonl")
    with open(pth, "w") as f:
        for c in acases:
            f.write(json.dumps(c) + "\n")
    try:
        r = run([ctx.harness, "augment", "-inputs", pth, "-out", d], timeout=3600)
        with open(os.path.join(d, "augment.cases")) as fin:
            m = subprocess.run([ctx.driver], stdin=fin, stdout=subprocess.PIPE, stderr=subprocess.PIPE, text=True, timeout=3600)
        impl = open(os.path.join(d, "augment.impl")).read().splitlines()
        model = m.stdout.splitlines()
        if len(impl) != len(model) or len(impl) != len(acases):
            ctx.broken("driver", f"augment stream: impl {len(impl)} model {len(model)} cases {len(acases)} {r.stderr[-500:]}")
        for c, a, b in zip(acases, impl, model):
            ctx.evaluations += 1
            ctx.count("augment:" + ("err" if "(err)" in a else "ok"))
            if "(hang)" in a or "(panic)" in a:
                ctx.violation("the scan for '...' does not terminate on this patch body" if "(hang)" in a else "the scan for '...' panics",
                              {"input": {"patch_body_side": c["patch"]}, "reproduce": "augment.Augment([]byte(side)); or a patch @@\\n@@\\n-<side>"})
            elif "(skipped)" in a:
                continue
            elif a != b:
                ctx.count("augment_model_differs")
                ctx.broken("correspondence", f"augment stream: implementation and model differ on {c['patch'][:80]!r}: {a[:200]} vs {b[:200]}")
    except subprocess.TimeoutExpired:
        ctx.broken("harness", "augment stream timed out")
    # engine outcome class vs the model on the ill-typed table and the generated stream
    d = ctx.scratch("c08e")
    pth = os.path.join(d, "in.jsonl")
    with open(pth, "w") as f:
        for c in [c for c in cases if c["id"].startswith("ill")]:
            f.write(json.dumps(c) + "\n")
    # (crashes while parsing/compiling a patch and non-termination are reported by run_engine_batch itself;
    # panics while a file is being patched are recovered by gopatch and surface as errors, which the
    # API and CLI streams above observe)
    res = run_engine_batch(ctx, ["-inputs", pth], "c08ill") + engine_batches(ctx, "mix", 200, 6000, golden=False)
    engine_projection(ctx, res, set())

# --- C10 -------------------------------------------------------------------
@signature("dup-import-path")
def sig_dup_import(sig, what, payload):
    src = (payload.get("input") or {}).get("src") or ""
    paths = re.findall(r'^\s*(?:import\s+)?(?:[\w.]+\s+)?"([^"]+)"\s*$', src, re.M)
    return len(paths) != len(set(paths))

def c10_environment(ctx):
    """Whether a guard holds is decided by the patch and the file: not by what lies next to them on disk (the sources of the
    imported package under vendor/, $GOPATH/src, $HOME/go/src with another package name), the working directory or the environment."""
    path = "example.com/bar"
    patch = f"@@\nvar x expression\n@@\n import \"{path}\"\n\n-old(x)\n+renewed(x)\n"
    files = {"named.go": f"package a\n\nimport bar \"{path}\"\n\nfunc f() {{ old(bar.V) }}\n",
             "othername.go": f"package a\n\nimport baz \"{path}\"\n\nfunc g() {{ old(baz.V) }}\n",
             "unnamed.go": f"package a\n\nimport \"{path}\"\n\nfunc h() {{ old(bar.V) }}\n",
             "absent.go": "package a\n\nfunc k() { old(1) }\n", "p.patch": patch}
    pkgsrc = "package bar\n\nvar V = 1\n"
    want_rewritten = {"unnamed.go"}
    for where in ("nothing", "vendor", "gopath", "home", "all-as-baz"):
        root = ctx.scratch("c10env")
        extra = {}
        if where == "vendor":
            extra[f"vendor/{path}/bar.go"] = pkgsrc
        if where == "gopath":
            extra[f"gp/src/{path}/bar.go"] = pkgsrc
        if where == "home":
            extra[f"home/go/src/{path}/bar.go"] = pkgsrc
        if where == "all-as-baz":
            for pre in ("vendor", "gp/src", "home/go/src"):
                extra[f"{pre}/{path}/b.go"] = pkgsrc.replace("package bar", "package baz")
        cl.write_tree(root, dict(files, **extra))
        env = dict(os.environ, GOPATH=os.path.join(root, "gp"), HOME=os.path.join(root, "home"), GOFLAGS="", GO111MODULE="off")
        names = [n for n in files if n.endswith(".go")]
        for cwd, args in ((root, names), ("/", [os.path.join(root, n) for n in names])):
            for n in names:
                with open(os.path.join(root, n), "w") as f:
                    f.write(files[n])
            r = subprocess.run([ctx.gopatch, "-p", os.path.join(root, "p.patch")] + args, cwd=cwd, env=env, stdout=subprocess.PIPE, stderr=subprocess.PIPE, timeout=180)
            ctx.evaluations += 1
            ctx.count("guards_and_environment")
            ctx.nontrivial.add(f"c10env:{where}:{cwd == root}")
            got = {n for n in names if "renewed(" in open(os.path.join(root, n)).read()}
            if got != want_rewritten or r.returncode != 0:
                ctx.violation(f"an unnamed import in the patch is a guard that only an unnamed import of the file satisfies; with the sources of the package "
                              f"placed: {where}, run from {'the project directory with relative paths' if cwd == root else '/ with absolute paths'}, "
                              f"rewritten: {sorted(got)} (expected {sorted(want_rewritten)}), exit {r.returncode}",
                              {"input": {"patch": patch, "files": {k: v for k, v in files.items() if k.endswith('.go')}, "on_disk_next_to_them": sorted(extra),
                                         "env": {"GOPATH": "<root>/gp", "HOME": "<root>/home"}}, "stderr": r.stderr.decode("utf-8", "replace")[-400:]})
        shutil.rmtree(root, ignore_errors=True)

@prop("C10")
def c10(ctx):
    c10_environment(ctx)
    ctx.rule = ("exhaustive cross product: patch-side import form {absent, unnamed, named literal (same / other), identifier-metavariable "
                "name, dot, blank} x file-side form {absent, unnamed, named same, named other, dot, blank} x package clause {none, "
                "matching, other} x import layout {single, grouped with unrelated imports}, always on a file where the code pattern "
                "occurs; expectation from the README table; the real engine's decision and result are compared with the table and "
                "with the Lean model (matchImport/fileMatch). Plus the generated import stream of the engine family. Non-trivial = "
                "guards hold and the file is rewritten; distinct = distinct (patch, file).")
    # guards of later changes are evaluated on what the earlier ones left: a refused change leaves nothing (its package clause, its imports)
    refused_rewrites_family(ctx)
    patch_sources_family(ctx)
    path = "example.com/pkg"
    pforms = {"absent": None, "unnamed": f'"{path}"', "named-same": f'pkg "{path}"', "named-other": f'other "{path}"',
              "metavar": f'nm "{path}"', "dot": f'. "{path}"', "blank": f'_ "{path}"'}
    fforms = {"absent": None, "unnamed": f'"{path}"', "named-same": f'pkg "{path}"', "named-other": f'other "{path}"',
              "dot": f'. "{path}"', "blank": f'_ "{path}"'}
    def expect(pf, ff):
        if pf == "absent":
            return True
        if ff == "absent":
            return False
        if pf == "unnamed":
            return ff == "unnamed"
        if pf == "metavar":
            return True
        return {"named-same": "named-same", "named-other": "named-other", "dot": "dot", "blank": "blank"}[pf] == ff
    cases, exp = [], {}
    extra_bodies = []
    k = 0
    for pf, pspec in pforms.items():
        for ff, fspec in fforms.items():
            for pk in ("none", "match", "other"):
                for layout in ("single", "grouped"):
                    for sign in (" ", "-"):
                        head = ""
                        if pk == "match":
                            head += " package a\n"
                        elif pk == "other":
                            head += " package zz\n"
                        if pspec:
                            head += f"{sign}import {pspec}\n"
                            if sign == "-":
                                head += f'+import {pspec.split(" ")[0] + " " if " " in pspec else ""}"example.com/newpkg"\n'
                            head += "\n"
                        meta = "var nm identifier\n" if pf == "metavar" else ""
                        patch = "@@\nvar x expression\n" + meta + "@@\n" + head + "-foo(x)\n+bar(x)\n"
                        if sign == " " and layout == "single":
                            # the same guards in front of other shapes of change: an expression replaced by a statement or by
                            # several, a statement by a statement (the two sides are reconciled when the patch is parsed)
                            for bi, body in enumerate(("-foo(x)\n+if err := bar(x); err != nil {\n+\treturn\n+}\n", "-foo(x)\n+bar(x)\n+baz(x)\n",
                                                       "-v := foo(x)\n+v := bar(x)\n", "-foo(x)\n+go bar(x)\n")):
                                extra_bodies.append((pf, ff, pk, layout, sign, fspec, "@@\nvar x expression\n" + meta + "@@\n" + head + body, bi))
                        imports = []
                        if fspec:
                            imports.append(fspec)
                        if layout == "grouped":
                            imports = ['"fmt"'] + imports + ['str "strings"']
                        if not imports:
                            imp = ""
                        elif layout == "single" and len(imports) == 1:
                            imp = "import " + imports[0] + "\n\n"
                        else:
                            imp = "import (\n" + "".join("\t" + i + "\n" for i in imports) + ")\n\n"
                        src = "package a\n\n" + imp + "func f() {\n\tfoo(1)\n\tpkg.Use(foo(2))\n}\n"
                        cid = f"x{k}"
                        k += 1
                        cases.append({"id": cid, "patches": [patch], "src": src})
                        exp[cid] = (expect(pf, ff) and pk != "other", f"patch import {pf}, file import {ff}, package clause {pk}, {layout}, sign '{sign}'")
                        while extra_bodies:
                            pf2, ff2, pk2, lay2, sg2, fs2, ptxt, bi = extra_bodies.pop()
                            src2 = "package a\n\n" + imp + "func f() {\n\tfoo(1)\n\tv := foo(3)\n\t_ = v\n}\n"
                            cid = f"x{k}"
                            k += 1
                            cases.append({"id": cid, "patches": [ptxt], "src": src2})
                            exp[cid] = (expect(pf2, ff2) and pk2 != "other",
                                        f"patch import {pf2}, file import {ff2}, package clause {pk2}, {lay2}, sign '{sg2}', body shape {bi}")
    # paths that are special to the Go tool are paths like any other to a guard: the cgo pseudo-package, a path with a dot
    # component, a standard-library package, a path that needs escapes in a Go string
    for spath in ("C", "unsafe", "gopkg.in/yaml.v3", "example.com/a-b/c_d", "embed"):
        for fimp in (None, f'"{spath}"', f'_ "{spath}"' if spath != "C" else None):
            if fimp is None and spath == "C" and False:
                continue
            for layout in ("single", "grouped"):
                patch = f"@@\nvar x expression\n@@\n import \"{spath}\"\n\n-foo(x)\n+bar(x)\n"
                imports = ([fimp] if fimp else [])
                if layout == "grouped":
                    imports = ['"fmt"'] + imports
                if spath == "C" and fimp:
                    imp = ("import \"fmt\"\n\n" if layout == "grouped" else "") + "/*\n#include <stdio.h>\n*/\nimport \"C\"\n\n"
                elif not imports:
                    imp = ""
                elif len(imports) == 1:
                    imp = "import " + imports[0] + "\n\n"
                else:
                    imp = "import (\n" + "".join("\t" + i + "\n" for i in imports) + ")\n\n"
                cid = f"x{k}"
                k += 1
                cases.append({"id": cid, "patches": [patch], "src": "package a\n\n" + imp + "func f() {\n\tfoo(1)\n}\n"})
                exp[cid] = (fimp == f'"{spath}"', f"guard on the path {spath!r}, file imports {fimp}, {layout}")
    d = ctx.scratch("c10")
    pth = os.path.join(d, "in.jsonl")
    with open(pth, "w") as f:
        for c in cases:
            f.write(json.dumps(c) + "\n")
    res = run_engine_batch(ctx, ["-inputs", pth], "c10x")
    ctx.extra["exhaustive"] = True
    ctx.extra["cross_product"] = len(cases)
    seen = set()
    for inp, orig, impl, model, same in res:
        seen.add(inp["id"])
        want, desc = exp[inp["id"]]
        got = any(t.startswith("k") for t in impl["trace"])
        ctx.count("table:" + ("applies" if want else "guarded"))
        if got != want:
            ctx.violation(f"{desc}: the change {'applied' if got else 'did not apply'} but the documented table says it {'applies' if want else 'must not apply'}",
                          replay_payload(inp, impl, model))
    missing = [c for c in cases if c["id"] not in seen]
    if missing:
        ctx.broken("harness", f"{len(missing)} cases of the cross product were rejected, e.g. {missing[0]['patches'][0]!r}")
    engine_projection(ctx, res, {"decisions", "where"})
    # the same guards in the second change of a patch whose first change has just added an import to the file (next to the
    # imports that are there): a guard speaks about the file as the change finds it
    first = "@@\nvar y expression\n@@\n+import \"example.com/added\"\n\n-prep(y)\n+added.Prep(y)\n"
    cases2, exp2 = [], {}
    def src_of(fspec, layout, extra=()):
        imports = list(extra) + ([fspec] if fspec else [])
        if layout == "grouped":
            imports = ['"fmt"'] + imports + ['str "strings"']
        if not imports:
            imp = ""
        elif layout == "single" and len(imports) == 1:
            imp = "import " + imports[0] + "\n\n"
        else:
            imp = "import (\n" + "".join("\t" + i + "\n" for i in imports) + ")\n\n"
        return "package a\n\n" + imp + "func f() {\n\tprep(0)\n\tfoo(1)\n\tpkg.Use(foo(2))\n}\n"
    for pf, pspec in pforms.items():
        if not pspec:
            continue
        for ff, fspec in fforms.items():
            for layout in ("single", "grouped"):
                meta = "var nm identifier\n" if pf == "metavar" else ""
                second = "@@\nvar x expression\n" + meta + "@@\n import " + pspec + "\n\n-foo(x)\n+bar(x)\n"
                for how in ("one-file", "two-files"):
                    cid = f"y{len(cases2)}"
                    cases2.append({"id": cid, "patches": [first + "\n" + second] if how == "one-file" else [first, second], "src": src_of(fspec, layout)})
                    exp2[cid] = (expect(pf, ff), f"after a change that added an import: patch import {pf}, file import {ff}, {layout}, {how}")
    # guards on the import the first change added, and on its unnamed neighbour under a name it does not have
    for layout in ("single", "grouped"):
        for gi, (guard, want) in enumerate((('"example.com/added"', True), ('added "example.com/added"', False), ('zz "example.com/added"', False),
                                            ('"example.com/other"', True), ('errs "example.com/other"', False), ('"example.com/absent"', False))):
            second = "@@\nvar x expression\n@@\n import " + guard + "\n\n-foo(x)\n+bar(x)\n"
            for how in ("one-file", "two-files"):
                cid = f"y{len(cases2)}"
                cases2.append({"id": cid, "patches": [first + "\n" + second] if how == "one-file" else [first, second],
                               "src": src_of(None, layout, extra=['"example.com/other"'])})
                exp2[cid] = (want, f"guard {guard} after a change that added \"example.com/added\" next to the unnamed \"example.com/other\", {layout}, {how}")
    res2 = run_engine_batch(ctx, ["-inputs", write_jsonl(ctx, cases2)], "c10y")
    ctx.extra["guards_after_an_import_edit"] = len(cases2)
    for inp, orig, impl, model, same in res2:
        want, desc = exp2[inp["id"]]
        tr = impl["trace"]
        if len(tr) != 2 or not tr[0].startswith("k"):
            ctx.broken("generator", f"{desc}: the first change did not apply (trace {tr})")
            continue
        got = tr[1].startswith("k")
        ctx.count("table_after_edit:" + ("applies" if want else "guarded"))
        if got != want:
            ctx.violation(f"{desc}: the change {'applied' if got else 'did not apply'} but the documented table says it {'applies' if want else 'must not apply'}",
                          replay_payload(inp, impl, model))
    engine_projection(ctx, res2, {"decisions", "where"})
    cli_projection(ctx, res2, {"decisions", "where"}, 40 if ctx.tier == "quick" else len(res2))
    # a guard is decided for each file by that file's own package clause: files of several packages in one directory
    # (a "//go:build ignore" generator of package main next to the library and its external test package), every change guarded
    pfiles = {"d/a_gen.go": "//go:build ignore\n\npackage main\n\nfunc main() { oldName(1) }\n", "d/lib.go": "package lib\n\nfunc f() { oldName(2) }\n",
              "d/lib_test.go": "package lib_test\n\nfunc g() { oldName(3) }\n", "d/z_more.go": "package lib\n\nfunc h() { oldName(4) }\n",
              "e/only.go": "package main\n\nfunc k() { oldName(5) }\n", "e/zlib.go": "package lib\n\nfunc m() { oldName(6) }\n"}
    pkg_of = {rel: re.search(r"^package (\w+)", src, re.M).group(1) for rel, src in pfiles.items()}
    for guards in (["lib"], ["main"], ["lib_test"], ["nowhere"], ["lib", "lib_test"], ["main", "nowhere"]):
        for mode in ([], ["--print-only"], ["--diff"]):
            for targs in (["."], ["./..."], ["d", "e"], sorted(pfiles), sorted(pfiles, reverse=True)):
                root = ctx.scratch("c10pkg")
                tree = dict(pfiles)
                pargs = []
                for gi, g_ in enumerate(guards):
                    tree[f"g{gi}.patch"] = f"@@\nvar x expression\n@@\n package {g_}\n\n-oldName(x)\n+newName{gi}(x)\n"
                    pargs += ["-p", f"g{gi}.patch"]
                cl.write_tree(root, tree)
                code, out, err = cl.gopatch(ctx.gopatch, root, pargs + mode + targs)
                so = out.decode("utf-8", "replace")
                ctx.evaluations += 1
                ctx.count("per_file_package_guards")
                ctx.nontrivial.add("pkgguard:" + ",".join(guards) + "|" + " ".join(mode) + "|" + " ".join(targs))
                probs = []
                for rel, src in pfiles.items():
                    want = pkg_of[rel] in guards
                    if not mode:
                        got = open(os.path.join(root, rel)).read() != src
                    elif mode == ["--diff"]:
                        got = ("--- " + rel + "\n") in so
                    else:
                        n_ = re.search(r"oldName\((\d)\)", src).group(1)
                        got = bool(re.search(r"newName\d\(" + n_ + r"\)", so))
                    if got != want:
                        probs.append(f"{rel} (package {pkg_of[rel]}) was {'rewritten' if got else 'left alone'}")
                shutil.rmtree(root, ignore_errors=True)
                if probs or code != 0:
                    ctx.violation(f"changes guarded by package {' / '.join(guards)}: " + "; ".join(probs[:4]) + f" (exit {code})",
                                  {"input": {"files": pfiles, "guards": guards, "flags": mode, "arguments": targs}, "stderr": err.decode("utf-8", "replace")[-500:]})
    # ... and by that file's own imports: one change guarded by several imports over several files in one run; whether a file
    # is rewritten depends on its own import list, not on which files came before it or which of its guards they failed
    alpha, beta, gamma = "example.com/alpha", "example.com/beta", "example.com/gamma"
    ifiles = {}
    for nm, imps in (("a_first", [alpha]), ("b_second", [alpha]), ("c_both", [alpha, beta]), ("d_beta", [beta]), ("e_none", []),
                     ("f_all", [alpha, beta, gamma]), ("g_alpha", [alpha]), ("h_both", [beta, alpha]), ("i_ag", [alpha, gamma])):
        blk = "" if not imps else ("import \"" + imps[0] + "\"\n\n" if len(imps) == 1 else
                                   "import (\n" + "".join(f'\t"{i}"\n' for i in imps) + ")\n\n")
        uses = "".join(f"\t{i.rsplit('/', 1)[1]}.Use()\n" for i in imps)
        ifiles[f"src/{nm}.go"] = (f"package demo\n\n{blk}func {nm}() {{\n\toldName({len(ifiles) + 1})\n{uses}}}\n", imps)
    for guards in ([alpha, beta], [beta, alpha], [alpha, beta, gamma], [gamma, alpha], [alpha], [beta, gamma]):
        gpatch = "@@\nvar x expression\n@@\n" + "".join(f' import "{g_}"\n' for g_ in guards) + "\n-oldName(x)\n+newName(x)\n"
        for mode in ([], ["--print-only"], ["--diff"]):
            for targs in (["./src"], ["./..."], sorted(ifiles), sorted(ifiles, reverse=True)):
                root = ctx.scratch("c10imp")
                tree = {rel: src for rel, (src, _) in ifiles.items()}
                tree["g.patch"] = gpatch
                cl.write_tree(root, tree)
                code, out, err = cl.gopatch(ctx.gopatch, root, ["-p", "g.patch"] + mode + targs)
                so = out.decode("utf-8", "replace")
                ctx.evaluations += 1
                ctx.count("per_file_import_guards")
                ctx.nontrivial.add("impguard:" + ",".join(guards) + "|" + " ".join(mode) + "|" + " ".join(targs))
                probs = []
                for rel, (src, imps) in ifiles.items():
                    want = all(g_ in imps for g_ in guards)
                    if not mode:
                        got = open(os.path.join(root, rel)).read() != src
                    elif mode == ["--diff"]:
                        got = ("--- " + rel + "\n") in so
                    else:
                        n_ = re.search(r"oldName\((\d+)\)", src).group(1)
                        got = ("newName(" + n_ + ")") in so
                    if got != want:
                        probs.append(f"{rel} (imports {[i.rsplit('/', 1)[1] for i in imps]}) was {'rewritten' if got else 'left alone'}")
                shutil.rmtree(root, ignore_errors=True)
                if probs or code != 0:
                    ctx.violation(f"a change guarded by the imports {' and '.join(g_.rsplit('/', 1)[1] for g_ in guards)} over several files in one run: "
                                  + "; ".join(probs[:4]) + f" (exit {code})",
                                  {"input": {"files": {rel: src for rel, (src, _) in ifiles.items()}, "patch": gpatch, "flags": mode, "arguments": targs},
                                   "stderr": err.decode("utf-8", "replace")[-500:]})
    # duplicate import paths: the known divergence (F8) and the generated stream
    dup = {"id": "f8", "patches": ["@@\nvar x expression\n@@\n import bar \"example.com/pkg\"\n\n-foo(x)\n+bar.Foo(x)\n"],
           "src": "package a\n\nimport (\n\t\"example.com/pkg\"\n\tbar \"example.com/pkg\"\n)\n\nfunc f() { foo(1); pkg.X(); bar.Y() }\n"}
    dups = [dup]
    forms = ['"example.com/pkg"', 'bar "example.com/pkg"', 'qux "example.com/pkg"', '_ "example.com/pkg"']
    k = 0
    for a in forms:
        for b in forms:
            if a == b:
                continue
            for guard in forms[:3]:
                k += 1
                want = guard in (a, b)
                dups.append({"id": f"dup{k}", "want": want, "patches": [f"@@\nvar x expression\n@@\n import {guard}\n\n-foo(x)\n+baz(x)\n"],
                             "src": f"package a\n\nimport (\n\t{a}\n\t{b}\n)\n\nfunc f() {{ foo(1); pkg.X(); bar.Y(); qux.Z() }}\n"})
    with open(pth, "w") as f:
        for dcase in dups:
            f.write(json.dumps(dcase) + "\n")
    wants = {dcase["id"]: dcase.get("want", True) for dcase in dups}
    dres = run_engine_batch(ctx, ["-inputs", pth], "c10f8")
    for inp, orig, impl, model, same in dres:
        ctx.evaluations += 1
        got = any(t.startswith("k") for t in impl["trace"])
        if got != wants.get(inp["id"], True):
            ctx.violation("a file importing one path twice: the guard must hold exactly when one of the two imports has the stated form "
                          f"(the change {'applied' if got else 'did not apply'})", replay_payload(inp, impl, model))
    engine_projection(ctx, dres, {"decisions", "where"})
    cli_projection(ctx, dres, {"decisions", "where"}, 40)
    engine_family(ctx, "c10", {"decisions", "where"}, n_quick=300, golden=False)

@prop("C11")
def c11(ctx):
    res = engine_family(ctx, "c11", {"imports", "decisions"}, n_quick=500)
    # the import edits of a change that is refused for the file are not made, the code edits of the others are
    refused_rewrites_family(ctx, {"status", "content", "decisions", "imports"})
    patch_sources_family(ctx, {"status", "content", "decisions", "imports"})
    # the same cases through the library API (which parses the file itself): its import declarations must be the model's
    cases, want = [], {}
    for inp, orig, impl, model, same in res:
        if model["status"] == "ok" and any(t.startswith("k") for t in model["trace"]) and len(inp.get("patches", [])) == 1:
            cid = f"i{len(cases)}"
            cases.append({"id": cid, "patches": inp["patches"], "src": inp["src"]})
            want[cid] = sorted((cl.sx_unquote(i[1]), cl.sx_unquote(i[2])) for i in (model.get("imports") or []))
    c11_grouped(ctx, cases)
    cases = cases[: (150 if ctx.tier == "quick" else 5000)]
    byid = {c["id"]: c for c in cases}
    for o in run_api(ctx, cases, rep=0):
        if o.get("parse_err") or o.get("panic") or o.get("err"):
            continue
        ctx.evaluations += 1
        ctx.count("api_imports")
        got = sorted(imports_of_source(o["out"]))
        if got != want[o["id"]]:
            c = byid[o["id"]]
            ctx.violation(f"library API: import declarations of the result {got} differ from the specification {want[o['id']]}",
                          {"input": {"patches": c["patches"], "src": c["src"]}, "api_output": o["out"][:1500]})

def c11_grouped(ctx, cases):
    """several files in one run, importing the same packages under different names: each file's imports must come out as
    in a run of its own (what a change captured in one file must not leak into the next)"""
    rng = random.Random(ctx.seed + 11)
    picked = [c for c in cases if re.search(r"^[-+ ]import \w+ ", c["patches"][0], re.M) and re.search(r'^\s*(x\w+|alias) "', c["src"], re.M)]
    picked = picked[: (60 if ctx.tier == "quick" else 1500)]
    # always: an import whose local name is a metavariable, re-added under that name (and one added next to it), in files
    # that use three different local names
    picked = [
        {"id": "dg0", "patches": ["@@\nvar n identifier\nvar x expression\n@@\n-import n \"example.com/old/api\"\n+import n \"example.com/new/api\"\n\n-n.Do(x)\n+n.DoContext(ctx, x)\n"],
         "src": "package a\n\nimport xapi \"example.com/old/api\"\n\nfunc f() {\n\txapi.Do(1)\n}\n"},
        {"id": "dg1", "patches": ["@@\nvar n identifier\nvar x expression\n@@\n import n \"example.com/old/api\"\n+import \"example.com/extra\"\n\n-n.Do(x)\n+extra.Wrap(n.Do(x))\n"],
         "src": "package a\n\nimport (\n\t\"fmt\"\n\n\txapi \"example.com/old/api\"\n)\n\nfunc f() {\n\tfmt.Println(xapi.Do(1))\n}\n"},
        {"id": "dg2", "patches": ["@@\nvar n identifier\n@@\n-import n \"example.com/old/api\"\n+import n \"example.com/v2/api\"\n\n n.Client\n"],
         "src": "package a\n\nimport alias \"example.com/old/api\"\n\nvar c alias.Client\n"},
    ] + picked
    def rename(src, k):
        names = sorted(set(re.findall(r'^\s*(?:import\s+)?(x\w+|alias) "', src, re.M)))
        for nm in names:
            src = WORD(nm).sub(nm + "_" + "abc"[k], src)
        return src
    def one(c):
        files = {"a.go": c["src"], "b.go": rename(c["src"], 1), "c.go": rename(c["src"], 2)}
        solo = {}
        for rel, src in files.items():
            root = ctx.scratch("c11s")
            cl.write_tree(root, {rel: src, "p.patch": c["patches"][0]})
            code, out, err = cl.gopatch(ctx.gopatch, root, ["-p", "p.patch", rel])
            solo[rel] = (code, open(os.path.join(root, rel)).read())
            shutil.rmtree(root, ignore_errors=True)
        order = list(files)
        rng2 = random.Random(c["id"])
        rng2.shuffle(order)
        root = ctx.scratch("c11g")
        cl.write_tree(root, dict(files, **{"p.patch": c["patches"][0]}))
        code, out, err = cl.gopatch(ctx.gopatch, root, ["-p", "p.patch"] + order)
        got = {rel: open(os.path.join(root, rel)).read() for rel in files}
        shutil.rmtree(root, ignore_errors=True)
        return c, files, solo, order, code, got, err.decode("utf-8", "replace")
    with ThreadPoolExecutor(max_workers=12) as ex:
        for c, files, solo, order, code, got, err in ex.map(one, picked):
            ctx.evaluations += 1
            ctx.count("grouped_import_runs")
            if any(v[0] != 0 for v in solo.values()):
                continue
            bad = [rel for rel in files if got[rel] != solo[rel][1]]
            if any(solo[rel][1] != files[rel] for rel in files):
                ctx.nontrivial.add("grouped:" + c["id"])
            if bad or code != 0:
                rel = bad[0] if bad else order[0]
                ctx.violation(f"{rel}: its imports (or code) after a run over {order} differ from a run on that file alone (exit {code})",
                              {"input": {"patches": c["patches"], "files": files, "args": order}, "grouped": got.get(rel, "")[:1200],
                               "solo": solo[rel][1][:1200], "stderr": err[-500:], "reproduce": "gopatch -p p.patch " + " ".join(order)})

def imports_of_source(text):
    """(name, path) pairs of the import declarations of gofmt-formatted source"""
    out, in_block = [], False
    for l in text.split("\n"):
        t = l.strip()
        if in_block:
            if t.startswith(")"):
                in_block = False
                continue
            m = re.match(r'^(?:([\w.]+)\s+)?"([^"]*)"', t)
            if m:
                out.append((m.group(1) or "", m.group(2)))
        elif t.startswith("import ("):
            in_block = True
        elif t.startswith("import "):
            m = re.match(r'^import\s+(?:([\w.]+)\s+)?"([^"]*)"', t)
            if m:
                out.append((m.group(1) or "", m.group(2)))
        elif t.startswith(("func ", "var ", "type ", "const ")):
            break
    return out

@signature("import-merge-comment-loss")
def sig_import_merge(sig, what, payload):
    return bool(payload.get("import_merge_only"))

@signature("crlf-original-diff")
def sig_crlf_diff(sig, what, payload):
    probs = payload.get("problems") or []
    return bool(probs) and all("CRLF-ORIGINAL" in p for p in probs)

# --- C09 -------------------------------------------------------------------
def unstable_intermediate(harness, chain, src):
    """True when the source tree or an intermediate tree of the combined run is not a fixed point of print + re-parse"""
    d = common.scratch("stable")
    pth = os.path.join(d, "in.jsonl")
    with open(pth, "w") as f:
        f.write(json.dumps({"id": "s", "patches": chain, "chain": chain, "src": src}) + "\n")
    try:
        r = subprocess.run([harness, "stable", "-inputs", pth], stdout=subprocess.PIPE, stderr=subprocess.PIPE, text=True, timeout=180)
        return r.stdout.strip() == "0"
    except Exception:
        return False
    finally:
        shutil.rmtree(d, ignore_errors=True)

@signature("comment-placement-in-intermediate-file")
def sig_comment_placement(sig, what, payload):
    return bool(payload.get("comment_placement_only"))

@signature("paren-in-later-minus")
def sig_paren_minus(sig, what, payload):
    chain = (payload.get("input") or {}).get("chain") or []
    src = (payload.get("input") or {}).get("src") or ""
    # semantic form of the finding: the tree a later change is matched against in the combined run is not what a separate
    # run would parse from the printed intermediate file
    if len(chain) > 1 and payload.get("harness") and unstable_intermediate(payload["harness"], chain, src):
        return True
    # the source itself has a parenthesised condition in an if/for/switch header: go/printer strips those parentheses
    # (stripParens), so a metavariable bound to the condition is "(e)" in memory and "e" after re-parsing
    if len(chain) > 1 and re.search(r"(?m)^\s*(\}\s*else\s+)?(if|for|switch)\b[^\n{]*?(^|[;\s])\((?!\)).*\)\s*(;[^\n{]*)?\{\s*(//.*|/\*.*)?$", src):
        return True
    # a later change whose '-' side (context or '-' lines) contains a parenthesised expression that is not a call's
    # argument list, a conversion or a parameter list: printing the intermediate file may drop or add such parentheses
    for ch in chain[1:]:
        body = ch.split("\n@@\n", 1)[-1]
        for l in body.split("\n"):
            if l.startswith("+") or not l:
                continue
            code = l[1:]
            if re.search(r"\)\s*\(\)\s*\{", code):      # an empty result list "()", which go/printer drops
                return True
            if re.search(r"\)\s*\([^(),]*(\([^()]*\)[^(),]*)*\)\s*\{", code):   # one unnamed result in redundant parentheses
                return True
            if re.search(r"(^|[\s(\[{,=:+\-*/%<>!&|^])\((?!\))", code) and not re.match(r"^\s*(func\b|\}?\s*else|import\b|var \(|const \(|type \()", code.strip()):
                return True
    return False

F7_WITNESS = {"id": "f7", "chain": ["@@\nvar x expression\n@@\n-foo(x)\n+x*2\n", "@@\nvar y expression\n@@\n-(y)*2\n+mul(y, 2)\n"],
              "src": "package a\n\nfunc f() int {\n\treturn foo(a + b)\n}\n"}

def parses_go(ctx, src):
    d = ctx.scratch("pg")
    p = os.path.join(d, "x.go")
    with open(p, "w") as f:
        f.write(src)
    r = subprocess.run([ctx.harness, "parses"], input=p + "\n", stdout=subprocess.PIPE, text=True)
    shutil.rmtree(d, ignore_errors=True)
    return r.stdout.strip() == "1"

def canon_files(ctx, paths):
    r = subprocess.run([ctx.harness, "canon"], input="\n".join(paths) + "\n", stdout=subprocess.PIPE, stderr=subprocess.PIPE, text=True)
    return r.stdout.splitlines()

def chain_check(ctx, c, how):
    """combined run vs chain of single-change runs, through the CLI; returns a problem string or None"""
    chain = c["chain"]
    root = ctx.scratch("c09")
    comb, seq = os.path.join(root, "comb"), os.path.join(root, "seq")
    for d in (comb, seq):
        os.makedirs(d)
        with open(os.path.join(d, "a.go"), "w") as f:
            f.write(c["src"])
        for i, ch in enumerate(chain):
            with open(os.path.join(d, f"c{i}.patch"), "w") as f:
                f.write(ch)
    # a change that occurs twice in the chain is the same patch file named twice
    name = [f"c{chain.index(ch)}.patch" for ch in chain]
    stdin = None
    if how == "one-file":
        with open(os.path.join(comb, "all.patch"), "w") as f:
            f.write("\n".join(chain))
        args = ["-p", "all.patch"]
    elif how == "stdin":
        args, stdin = [], "\n".join(chain).encode()
    elif how == "list":
        with open(os.path.join(comb, "list.txt"), "w") as f:
            f.write("".join(f"{name[i]}\n" for i in range(len(chain))))
        args = ["-P", "list.txt"]
    elif how == "mixed" and len(chain) >= 2:
        with open(os.path.join(comb, "list.txt"), "w") as f:
            f.write("".join(f"{name[i]}\n" for i in range(1, len(chain))))
        args = ["-p", "c0.patch", "-P", "list.txt"]
    else:
        args = [x for i in range(len(chain)) for x in ("-p", name[i])]
    code, out, err = cl.gopatch(ctx.gopatch, comb, args + ["a.go"], stdin=stdin)
    seq_fail = None
    for i in range(len(chain)):
        sc, so, se = cl.gopatch(ctx.gopatch, seq, ["-p", f"c{i}.patch", "a.go"])
        if sc != 0:
            seq_fail = (i, se.decode("utf-8", "replace"))
            break
    res = None
    comb_bytes = open(os.path.join(comb, "a.go")).read()
    seq_bytes = open(os.path.join(seq, "a.go")).read()
    if seq_fail is not None:
        if code == 0:
            res = f"step {seq_fail[0]} of the chain fails ({seq_fail[1].strip()[:120]}) but the combined run reports success"
        elif comb_bytes != c["src"]:
            res = "the combined run failed but did not leave the file untouched"
    elif code != 0:
        res = f"every single step succeeds but the combined run fails: {err.decode('utf-8','replace').strip()[:200]}"
    else:
        ca, cb = canon_files(ctx, [os.path.join(comb, "a.go"), os.path.join(seq, "a.go")])
        if ca != cb:
            res = "the combined run and the chain of single-change runs give different programs"
    shutil.rmtree(root, ignore_errors=True)
    return res, comb_bytes, seq_bytes

@prop("C09")
def c09(ctx):
    ctx.rule = ("chains of 2..4 changes where change k+1 matches only code produced by change k (optionally with a change that matches "
                "nothing in between), given as one patch file, several -p flags, a -P list, -p and -P mixed, or stdin; (i) the real "
                "engine's per-change decisions are compared with the Lean model applyChange folded over the changes; (ii) through the "
                "CLI the combined run is compared with running gopatch once per change on the file the previous run wrote, as canonical "
                "trees with redundant parentheses removed; a failing step must make the combined run fail and leave the file untouched. "
                "Non-trivial = at least two changes matched; distinct = distinct (chain, source).")
    res = engine_family(ctx, "c09", {"decisions", "status"}, n_quick=300, n_thorough=8000, golden=True)
    # which patches a run consists of, and in which order (flags, then the -P list, or stdin): the loader against its model
    loader_tie(ctx)
    # "if any step fails, the combined run reports the failure and leaves the file untouched": command line and library
    refused_rewrites_family(ctx)
    patch_sources_family(ctx)
    stale_capture_family(ctx)
    # CLI chain check
    rng = random.Random(ctx.seed)
    cases = [c for c in gen_cases(ctx, "c09", 150 if ctx.tier == "quick" else 3000, ctx.seed + 7, golden=False) if c.get("chain")]
    budget = 60 if ctx.tier == "quick" else 1500
    hows = ["flags", "one-file", "list", "stdin", "mixed"]
    todo = []
    for i, c in enumerate(cases[:budget]):
        if i % 2 == 1:
            # comment-rich variant of the same file: comment surgery between changes must not break the sequence
            src = inject_comments(rng, c["src"])
            if src and parses_go(ctx, src):
                c = dict(c, src=src, src_plain=c["src"])
        todo.append((c, hows[i % len(hows)]))
    todo.append((dict(F7_WITNESS), "flags"))
    for kf in ctx.known:
        if kf["id"] == "F25":
            w = kf["witness"]
            todo.append(({"id": "f25", "chain": w["chain"], "src": w["src"], "src_plain": w["src_plain"]}, w.get("given_as") or "flags"))
            w2 = kf.get("witness_2")
            if w2:
                plain = re.sub(r"/\*.*?\*/", "", re.sub(r"(?m)[ \t]*//.*$", "", w2["src"]), flags=re.S)
                todo.append(({"id": "f25b", "chain": w2["chain"], "src": w2["src"], "src_plain": plain}, "flags"))
    todo.append(({"id": "f16", "chain": ["@@\nvar f identifier\n@@\n func f(...) {\n-  ...\n }\n", "@@\nvar x expression\n@@\n-x == nil\n+nil == x\n"],
                  "src": "package a\n\nfunc g() bool { return x == nil }\n\nfunc f() {\n\ta(nil, // c\n\t)\n}\n"}, "flags"))
    # witnesses of repaired defects
    for cname in ("chains.json", "seeded_chains.json"):
        cpath = os.path.join(VERIF, "corpus", "C09", cname)
        if os.path.exists(cpath):
            for w in json.load(open(cpath)):
                for how_ in (("flags", "one-file") if cname == "seeded_chains.json" else (w.get("how", "flags"),)):
                    todo.append(({"id": w["id"] + "/" + how_, "chain": w["chain"], "src": w["src"]}, how_))
    # the same patch given twice, with one in between that produces what it matches: it is applied twice
    dup = ["@@\nvar x expression\n@@\n-oldLog(x)\n+newLog(x)\n", "@@\nvar x expression\n@@\n-report(x)\n+oldLog(x)\n"]
    for how_ in ("list", "flags", "mixed", "one-file", "stdin"):
        todo.append(({"id": "dup/" + how_, "chain": [dup[0], dup[1], dup[0]],
                      "src": "package a\n\nfunc f(n int) {\n\toldLog(n)\n\treport(n + 1)\n}\n"}, how_))
        todo.append(({"id": "dup2/" + how_, "chain": [dup[1], dup[0], dup[1], dup[0]],
                      "src": "package a\n\nfunc f(n int) {\n\toldLog(n)\n\treport(report(n + 1))\n}\n"}, how_))
    # a labelled loop matched through "for ...", then changes that spell out the label: what an earlier change rebuilt is
    # matched by the later ones as if it had been parsed from the printed file
    lab_src = ("package scan\n\nfunc total(rows [][]int) int {\n\tn := 0\nouter:\n\tfor _, row := range rows {\n\t\tfor _, v := range row {\n"
               "\t\t\tif v < 0 {\n\t\t\t\tcontinue outer\n\t\t\t}\n\t\t\tn += v\n\t\t}\n\t\tvisit(row)\n\t}\n\treturn n\n}\n\n"
               "func each(rows [][]int) {\n\tfor i := 0; i < len(rows); i++ {\n\t\tvisit(rows[i])\n\t}\n}\n")
    lab_chain = ["@@\nvar X expression\n@@\n for ... {\n   ...\n-  visit(X)\n+  inspect(X)\n }\n",
                 "@@\n@@\n-outer:\n+rows:\n for ... {\n   ...\n }\n", "@@\n@@\n-continue outer\n+continue rows\n"]
    for how_ in ("flags", "one-file", "list"):
        todo.append(({"id": "label/" + how_, "chain": lab_chain, "src": lab_src}, how_))
    # an earlier change writes what an elision stood for twice; a later change rewrites an element of it: both copies, as
    # in a run on the printed file
    twice = [(["@@\n@@\n-foo(...)\n+both(one(...), two(...))\n", "@@\nvar v expression\n@@\n-v.Get()\n+v.Load()\n"],
              "package a\n\nfunc f() {\n\tfoo(x.Get(), 2)\n}\n"),
             (["@@\n@@\n-foo(...)\n+bar(...)\n+baz(...)\n", "@@\nvar v expression\n@@\n-v.Get()\n+v.Load()\n"],
              "package a\n\nfunc f() {\n\tfoo(x.Get(), y.Get())\n}\n"),
             (["@@\nvar e expression\n@@\n-dup(e)\n+pair(e, e)\n", "@@\n@@\n-old()\n+renewed()\n"],
              "package a\n\nfunc f() {\n\tdup(old())\n\tdup(wrap(old(), 1))\n}\n"),
             # a later change that matches a node and a node inside it, in code an earlier change regenerated and in code it did not
             (["@@\nvar x expression\n@@\n-compute(x)\n+calc(x)\n", "@@\n@@\n-foo(...)\n+bar(...)\n"],
              "package a\n\nfunc f() {\n\tcompute(foo(foo(1)))\n\tfoo(foo(2))\n\tcompute(foo(3, foo(foo(4))))\n}\n"),
             (["@@\nvar x, y expression\n@@\n-compute(x, y)\n+calc(y, x)\n", "@@\nvar v expression\n@@\n-wrap(v)\n+v\n"],
              "package a\n\nfunc f() {\n\tcompute(wrap(wrap(1)), wrap(2))\n\twrap(wrap(wrap(3)))\n}\n")]
    for ti, (tchain, tsrc) in enumerate(twice):
        for how_ in ("flags", "one-file", "list"):
            todo.append(({"id": f"twice{ti}/{how_}", "chain": tchain, "src": tsrc}, how_))
    # names of changes are labels: the same chains with every change named - all alike (two patches that both call their change
    # "fix", concatenated), all different, named like a metavariable of the change or like another change's metavariable
    named_src = [(dup[:2] + dup[:1], "package a\n\nfunc f(n int) {\n\toldLog(n)\n\treport(n + 1)\n}\n"), twice[0], twice[3], (lab_chain, lab_src)]
    for ni, (nchain, nsrc) in enumerate(named_src):
        for nk, namer in enumerate((lambda k: "fix", lambda k: f"fix{k}", lambda k: "x", lambda k: ("fix", "v", "fix", "X")[k % 4], lambda k: "fix" if k else "")):
            nch = [re.sub(r"^@@$", (f"@ {namer(k)} @" if namer(k) else "@@"), ch, count=1, flags=re.M) for k, ch in enumerate(nchain)]
            for how_ in ("one-file", "flags", "stdin"):
                todo.append(({"id": f"named{ni}.{nk}/{how_}", "chain": nch, "src": nsrc}, how_))
    # a chain with a failing step
    todo.append(({"id": "failstep", "chain": ["@@\nvar x expression\n@@\n-foo(x)\n+bar(x)\n", "@@\nvar x expression\n@@\n-bar(x)\n+baz.x\n"],
                  "src": "package a\n\nfunc f() {\n\tfoo(g(1))\n}\n"}, "flags"))
    # a failing step followed by steps that would succeed
    for oi, order in enumerate(FAILSTEP_ORDERS):
        todo.append(({"id": f"failstep-{oi}", "chain": [FAILSTEP[k] for k in order], "src": FAILSTEP_SRC}, hows[oi % len(hows)]))
    with ThreadPoolExecutor(max_workers=8) as ex:
        outs = list(ex.map(lambda t: chain_check(ctx, t[0], t[1]), todo))
    for (c, how), (problem, cb, sb) in zip(todo, outs):
        ctx.evaluations += 1
        ctx.count("load:" + how)
        ctx.nontrivial.add(json.dumps(c["chain"]) + c["src"])
        if problem:
            printer_only = False
            if c.get("src_plain") and (("step " in problem and ("format.Node" in problem or "reformat" in problem or "not valid Go" in problem))
                                       or "give different programs" in problem):
                # F25: is it only where the comments end up in the printed intermediate file? the same chain on the file
                # without the injected comments must be fine
                p2, _, _ = chain_check(ctx, dict(c, src=c["src_plain"]), how)
                printer_only = p2 is None
            ctx.violation(problem, {"input": {"chain": c["chain"], "src": c["src"], "given_as": how}, "harness": ctx.harness,
                                    "comment_placement_only": printer_only,
                                    "combined": cb[-800:], "chained": sb[-800:],
                                    "reproduce": "gopatch -p c0.patch -p c1.patch ... a.go   versus   gopatch -p c0.patch a.go; gopatch -p c1.patch a.go; ..."})

# --- C17 -------------------------------------------------------------------
def inject_comments(rng, src):
    """add comments of every kind to a generated source; returns None if nothing sensible can be done"""
    lines = src.split("\n")
    out = []
    n = 0
    depth = 0
    for i, l in enumerate(lines):
        stripped = l.strip()
        is_decl_start = l.startswith(("func ", "type ", "var ", "const ")) and depth == 0
        if is_decl_start and rng.random() < 0.6:
            n += 1
            out.append(rng.choice([f"// Doc comment {n} for the declaration.", f"// doc {n} line one\n// doc {n} line two", f"/* block doc {n} */", f"//go:generate echo {n}", f"//nolint:all // reason {n}"]))
        elif stripped and not stripped.startswith(("package", "import", ")", '"')) and rng.random() < 0.12:
            n += 1
            ind = l[: len(l) - len(l.lstrip())]
            out.append(ind + rng.choice([f"// free-standing {n}", f"/* free block {n} */", f"// TODO({n}): something"]))
        if stripped and not stripped.startswith(("package", "import")) and "`" not in l and rng.random() < 0.2 and not stripped.endswith(("(", ",")):
            n += 1
            l = l + rng.choice([f" // eol {n}", f" /* eol block {n} */"])
        if "(" in l and ")" in l and rng.random() < 0.05 and '"' not in l and "'" not in l and "`" not in l:
            n += 1
            l = l.replace("(", f"( /* in {n} */ ", 1)
        if stripped.startswith("package ") and depth == 0 and rng.random() < 0.35:
            # a comment trailing the package clause (an import comment, say): go/ast's comment map hangs it on the package name
            n += 1
            l = l + rng.choice([f' // import "example.com/p{n}"', f" // trailing the package clause {n}", f" /* pkg {n} */"])
        out.append(l)
        depth += l.count("{") - l.count("}")
        if depth == 0 and stripped == "}" and rng.random() < 0.2:
            n += 1
            out.append("")
            out.append(f"// detached comment {n} between declarations")
            out.append("")
    if n == 0:
        return None
    text = "\n".join(out)
    hdr = rng.choice(["", "// Copyright header.\n// Second line.\n\n", "//go:build linux\n\n", "// Package doc comment.\n", "/* block header */\n\n// Package p does things.\n"])
    return hdr + text

IMPORT_BLOCK = re.compile(r'^import \((.*?)^\)\n', re.S | re.M)
IMPORT_LINE = re.compile(r'^import ([^(\n]+)\n', re.M)

def split_source(src):
    """-> (package name, import specs, rest) of a generated source"""
    m = re.match(r"package (\w+)\n", src)
    if not m:
        return None
    rest = src[m.end():]
    specs = []
    for b in IMPORT_BLOCK.finditer(rest):
        specs += [l.strip() for l in b.group(1).split("\n") if l.strip()]
    rest = IMPORT_BLOCK.sub("", rest)
    specs += [l.group(1).strip() for l in IMPORT_LINE.finditer(rest)]
    rest = IMPORT_LINE.sub("", rest)
    return m.group(1), specs, rest.lstrip("\n")

def merge_cases(rng, a, b):
    """one file containing the code of both cases and a patch list applying both patches"""
    sa, sb = split_source(a["src"]), split_source(b["src"])
    if not sa or not sb:
        return None
    specs = []
    paths = set()
    for sp in sa[1] + sb[1]:
        pth = re.search(r'"([^"]+)"', sp)
        if pth and pth.group(1) not in paths:
            paths.add(pth.group(1))
            specs.append(sp)
    imp = ""
    if specs:
        style = rng.randrange(3)
        if style == 0:
            imp = "".join(f"import {sp}\n" for sp in specs) + "\n"      # every import its own declaration
        else:
            imp = "import (\n" + "".join(f"\t{sp}\n" for sp in specs) + ")\n\n"
    body_b = re.sub(r"\bfn(\d+)\b", r"gn\1", sb[2])
    body_b = re.sub(r"\bother(\d+)\b", r"another\1", body_b)
    body_b = re.sub(r"\btop(\d+)\b", r"bottom\1", body_b)
    src = f"package {sa[0]}\n\n" + imp + sa[2].rstrip("\n") + "\n\n" + body_b
    pa = [p for p in a["patches"]]
    pb = [re.sub(r"^([ -])package \w+\n", "", p, flags=re.M) for p in b["patches"]]
    order = [pa + pb, pb + pa][rng.randrange(2)]
    return {"patches": order, "src": src}

@prop("C17")
def c17(ctx):
    ctx.level = "proof"
    ctx.rule = ("generated (patch, file) pairs whose file is decorated with comments of every kind (doc line/block, directives "
                "//go:build //go:generate //nolint, end-of-line, free-standing, inside expressions, detached between declarations, "
                "copyright / package header); the real binary rewrites the file (--print-only); go/parser extracts, for input and "
                "output, the comments belonging to each top-level declaration (doc group, inside, trailing on its last line) and the "
                "header comments. Checked: declarations whose canonical syntax is unchanged keep exactly their comments in order; "
                "header/package comments unchanged; no comment text appears more often than in the input. Non-trivial = the file was "
                "rewritten and has at least one untouched declaration with comments; distinct = distinct (patch, file).")
    rng = random.Random(ctx.seed)
    n = 250 if ctx.tier == "quick" else 8000
    cases = [c for c in gen_cases(ctx, "c05", n, ctx.seed) if len(c.get("patches", [])) >= 1]
    jobs = []
    for i, c in enumerate(cases):
        src = inject_comments(rng, c["src"])
        if src is None:
            continue
        jobs.append((f"c{i}", c["patches"], src))
    # several changes on one file: two independent patches (the second often edits imports) on the merged code
    imp_cases = [c for c in gen_cases(ctx, "c11", n // 2, ctx.seed + 3, golden=False) if len(c.get("patches", [])) == 1]
    for i in range(min(len(imp_cases), n // 2)):
        m = merge_cases(rng, cases[rng.randrange(len(cases))], imp_cases[i])
        if not m or not any(len(p) for p in m["patches"]):
            continue
        src = inject_comments(rng, m["src"])
        if src is None:
            continue
        jobs.append((f"m{i}", m["patches"], src))
    ctx.count("multi_change_jobs", sum(1 for j in jobs if j[0].startswith("m")))
    # patches in which an earlier change declares metavariables and the change that follows uses the same names as ordinary
    # code: what the later change must leave alone keeps its comments
    sc_cases = [c for c in gen_cases(ctx, "c05", 3 * n, ctx.seed + 9, golden=False) if " scope" in c.get("note", "")]
    for i, c in enumerate(sc_cases[: n // 3]):
        src = inject_comments(rng, c["src"])
        if src:
            jobs.append((f"s{i}", c["patches"], src))
    ctx.count("scope_jobs", sum(1 for j in jobs if j[0].startswith("s")))
    # long runs of rewritten declarations in front of untouched ones with comments: around the look-ahead (64) of the list
    # alignment, with and without an import added in front
    for nrun in (7, 63, 64, 65, 130):
        body = "".join(f"func r{i}() {{ foo({i}) }}\n\n" for i in range(nrun))
        tail = ("// keep doc\nfunc keep() {\n\t// inside keep\n\tzzz(1) // eol keep\n}\n\nfunc r_last() { foo(0) }\n\n"
                "// const doc\nconst (\n\t// first\n\tA = 1 // one\n\tB = 2\n)\n")
        src = "package a\n\nimport \"fmt\"\n\nvar _ = fmt.Sprint\n\n" + body + tail
        jobs.append((f"run{nrun}", ["@@\nvar x expression\n@@\n-foo(x)\n+bar(x)\n"], src))
        jobs.append((f"run{nrun}i", ["@@\nvar x expression\n@@\n+import \"example.com/added\"\n\n-foo(x)\n+added.Bar(x)\n"], src))
    # untouched declarations that nest very deep (a concatenation of hundreds of rows, calls inside calls, blocks inside blocks),
    # with comments on the way down, next to a declaration the patch rewrites
    for depth in (20, 90, 200, 450):
        rows = "".join(f"\t\"row {i:03d}\" + // about row {i}\n" for i in range(depth))
        calls = "".join("\t" * 1 + f"w{i}( // enter {i}\n" for i in range(depth)) + "\t0" + ")" * depth
        blocks = "".join("\t" * 1 + f"{{ // block {i}\n" for i in range(min(depth, 200))) + "\tzzz()\n" + "\t}\n" * min(depth, 200)
        src = (f"package a\n\nfunc first() {{ foo(1) }}\n\n// Known lists the rows.\nconst Known = \"\" +\n{rows}\t\"end\" // the end\n\n"
               f"// deep calls\nvar v = f(\n{calls}, // closed\n)\n\n// deep blocks\nfunc blocks() {{\n{blocks}}}\n\nfunc last() {{ foo(2) }} // tail\n")
        jobs.append((f"deep{depth}", ["@@\nvar x expression\n@@\n-foo(x)\n+bar(x)\n"], src))
    for k in ctx.known:
        if k["id"] == "F18":
            jobs.append(("f18", [k["witness"]["patch"]], k["witness"]["file"]))
    for cname in ("cases.json", "seeded_demos.json"):       # witnesses of repaired defects; inputs of seeded demonstrations
        cpath = os.path.join(VERIF, "corpus", "C17", cname)
        if os.path.exists(cpath):
            for w in json.load(open(cpath)):
                jobs.append((w["id"], w["patches"], w["src"]))
    def one(job):
        cid, patches, src = job
        root = ctx.scratch("c17")
        with open(os.path.join(root, "a.go"), "w") as f:
            f.write(src)
        pargs = []
        for k, p in enumerate(patches):
            with open(os.path.join(root, f"p{k}.patch"), "w") as f:
                f.write(p)
            pargs += ["-p", f"p{k}.patch"]
        code, out, err = cl.gopatch(ctx.gopatch, root, pargs + ["--print-only", "-v", "a.go"])
        shutil.rmtree(root, ignore_errors=True)
        o = out.decode("utf-8", "replace")
        patched = o.rstrip("\n").endswith(": patched")
        body = o[: o.rstrip("\n").rfind("\n") + 1] if "\n" in o.rstrip("\n") else ""
        return cid, patches, src, code, patched, body
    with ThreadPoolExecutor(max_workers=16) as ex:
        runs = list(ex.map(one, jobs))
    # which declarations contain a site (also a site rewritten to identical syntax): from the Lean engine model
    touched = {}
    touched_spec_only = {}
    dd = ctx.scratch("c17dec")
    with open(os.path.join(dd, "in.jsonl"), "w") as f:
        for cid, patches, src in jobs:
            f.write(json.dumps({"id": cid, "patches": patches, "src": src}) + "\n")
    for inp, orig, impl, model, same in run_engine_batch(ctx, ["-inputs", os.path.join(dd, "in.jsonl")], "c17dec"):
        if impl["trace"] == model["trace"]:
            touched[inp["id"]] = model.get("touched", [])
        elif model.get("status") == "ok":
            # the engine and its specification disagree about this case (other properties report that): which declarations
            # hold a site is still what the specification says - a declaration it leaves alone and whose syntax comes out
            # unchanged must keep its comments, whatever the engine did to it on the way
            touched_spec_only[inp["id"]] = model.get("touched", [])
            ctx.count("engine_trace_differs_from_specification")
    facts_tie(ctx)
    c17_intervals_tie(ctx, jobs, touched)
    c17_astdiff_tie(ctx, jobs, ctx.extra.pop("_untouched_extents", {}))
    d = ctx.scratch("cc")
    pth = os.path.join(d, "in.jsonl")
    meta = {}
    with open(pth, "w") as f:
        for cid, patches, src, code, patched, body in runs:
            ctx.evaluations += 1
            if code != 0 or not patched:
                ctx.count("unpatched")
                continue
            if cid not in touched and cid not in touched_spec_only:
                ctx.count("no_model_answer")
                continue
            f.write(json.dumps({"id": cid, "orig": src, "out": body, "touched": touched.get(cid, touched_spec_only.get(cid))}) + "\n")
            meta[cid] = (patches, src, body)
    r = run([ctx.harness, "commentcheck", "-inputs", pth])
    if r.returncode != 0:
        ctx.broken("harness", "commentcheck failed: " + r.stderr[-1500:])
        return
    for l in r.stdout.splitlines():
        o = json.loads(l)
        patches, src, body = meta[o["id"]]
        if o.get("skip"):
            ctx.count("skip:" + o["skip"])
            continue
        ctx.count("checked")
        ctx.count("untouched_decls", o["untouched"])
        if o["untouched"] > 0 and o["comments"] > 0:
            ctx.nontrivial.add(patches[0] + src)
        if len(ctx.samples) < 2 and o["untouched"] > 0:
            ctx.sample({"patch": patches[0][:300], "src": src[:500], "untouched_declarations": o["untouched"], "comments": o["comments"]})
        if o.get("problems"):
            payload = {"input": {"patches": patches, "src": src}, "output": body, "problems": o["problems"],
                       "reproduce": "gopatch -p p0.patch --print-only a.go"}
            # F18: is the loss caused by import declarations being merged (the declaration list shifts and the
            # heuristic list diff pairs declarations wrongly)? Decided by running the same case with the file's
            # import declarations already grouped into one.
            if all("syntactically unchanged but its comments changed" in p for p in o["problems"]) and any("+import" in p for p in patches):
                g = group_imports(src)
                if g and g != src and not c17_problems(ctx, one, patches, g):
                    # F18 happens within one change. When the run has several, the loss must already occur with
                    # an import-adding change alone; otherwise something else (state carried from change to change) lost them
                    singles = [ch for p in patches for ch in split_changes(p)]
                    if len(singles) <= 1 or any("+import" in ch and c17_problems(ctx, one, [ch], src) not in ([], ["not patched"])
                                                for ch in singles):
                        payload["import_merge_only"] = True
            ctx.violation("; ".join(o["problems"][:2])[:600], payload)

def split_changes(text):
    """the individual changes of a patch file, each as its own patch text"""
    out, cur, nat = [], [], 0
    for l in text.split("\n"):
        if l.startswith("@"):
            nat += 1
            if nat % 2 == 1 and any(x.startswith("@") for x in cur):
                # a new header: the '#' lines directly above it belong to it
                k = len(cur)
                while k > 0 and cur[k - 1].lstrip().startswith("#"):
                    k -= 1
                out.append("\n".join(cur[:k]) + "\n")
                cur = cur[k:]
        cur.append(l)
    if any(x.startswith("@") for x in cur):
        out.append("\n".join(cur))
    return out

def group_imports(src):
    """the same file with all its leading import declarations grouped into one block (None if there is nothing to group)"""
    lines = src.split("\n")
    i = 0
    while i < len(lines) and not lines[i].startswith("import"):
        if lines[i].startswith(("func ", "type ", "var ", "const ")):
            return None
        i += 1
    start, specs, ndecl = i, [], 0
    while i < len(lines):
        l = lines[i]
        if l.startswith("import ("):
            ndecl += 1
            i += 1
            while i < len(lines) and not lines[i].startswith(")"):
                if lines[i].strip():
                    specs.append(lines[i].strip())
                i += 1
            i += 1
        elif l.startswith("import "):
            ndecl += 1
            specs.append(l[len("import "):].strip())
            i += 1
        elif not l.strip():
            i += 1
        else:
            break
    if ndecl < 2:
        return None
    return "\n".join(lines[:start] + ["import ("] + ["\t" + sp for sp in specs] + [")", ""] + lines[i:])

def c17_problems(ctx, one, patches, src):
    """comment problems of a single (patches, file) case: list of strings (empty when the case is fine or not patched)"""
    cid, _, _, code, patched, body = one(("v", patches, src))
    if code != 0 or not patched:
        return ["not patched"]
    dd = ctx.scratch("c17v")
    with open(os.path.join(dd, "in.jsonl"), "w") as f:
        f.write(json.dumps({"id": "v", "patches": patches, "src": src}) + "\n")
    touched = None
    for inp, orig, impl, model, same in run_engine_batch(ctx, ["-inputs", os.path.join(dd, "in.jsonl")], "c17v"):
        touched = model.get("touched", [])
    if touched is None:
        return ["no model answer"]
    pth = os.path.join(dd, "cc.jsonl")
    with open(pth, "w") as f:
        f.write(json.dumps({"id": "v", "orig": src, "out": body, "touched": touched}) + "\n")
    r = run([ctx.harness, "commentcheck", "-inputs", pth])
    for l in r.stdout.splitlines():
        o = json.loads(l)
        return o.get("problems") or []
    return ["commentcheck gave no answer"]

def c17_respects_single(ctx, patches, src):
    """the interval invariant for one (patches, file) case: True / False / None (case not expressible)"""
    dd = ctx.scratch("c17r")
    pth = os.path.join(dd, "in.jsonl")
    with open(pth, "w") as f:
        f.write(json.dumps({"id": "r", "patches": patches, "src": src}) + "\n")
    touched = None
    for inp, orig, impl, model, same in run_engine_batch(ctx, ["-inputs", pth], "c17r"):
        if impl["trace"] == model["trace"]:
            touched = model.get("touched", [])
    if touched is None or len(patches) != 1:
        return None
    r = run([ctx.harness, "intervals", "-inputs", pth, "-out", dd], timeout=120)
    ls = open(os.path.join(dd, "intervals.cases")).read().splitlines() if r.returncode == 0 else []
    if not ls:
        return None
    sx = parse_sx(ls[0])
    decls = [(int(x[0]), int(x[1]), x[2] == "1") for x in (sx_field(sx[3:], "decls") or [])]
    nonimp = [(a, b) for a, b, imp in decls if not imp]
    unt = " (untouched" + "".join(f" ({a} {b})" for j, (a, b) in enumerate(nonimp) if j not in touched) + ")"
    m = subprocess.run([ctx.driver], input=ls[0][:-1] + unt + ")\n", stdout=subprocess.PIPE, stderr=subprocess.PIPE, text=True, timeout=120)
    out = parse_sx(m.stdout.strip()) if m.stdout.strip() else None
    if not out:
        return None
    return (sx_field(out[2:], "respects") or ["1"])[0] == "1"

def union_of(ivs):
    """the set of positions covered by the valid intervals, as a sorted list of merged intervals"""
    out = []
    for a, b in sorted((a, b) for a, b in ivs if a < b):
        if out and a <= out[-1][1]:
            out[-1][1] = max(out[-1][1], b)
        else:
            out.append([a, b])
    return out

def c17_astdiff_tie(ctx, jobs, untouched=None):
    """internal/astdiff + internal/diff against their Lean model (AstDiff.lean): for every change that applies, the
    snapshot before it and the snapshot Snapshot.Diff returns are dumped (harness/astdiff, injected into the package by
    -overlay); the model diffs the same two values. Compared: the positions covered by the regions reported as changed,
    and the comment associations carried over to the new snapshot."""
    d = ctx.scratch("ad")
    pth = os.path.join(d, "in.jsonl")
    with open(pth, "w") as f:
        for cid, patches, src in jobs:
            f.write(json.dumps({"id": cid, "patches": patches, "src": src}) + "\n")
    r = run([ctx.harness, "astdiff", "-inputs", pth, "-out", d], timeout=1800)
    if r.returncode != 0:
        ctx.broken("harness", "zzverif astdiff failed: " + r.stderr[-1500:])
        return
    with open(os.path.join(d, "astdiff.cases")) as f:
        m = subprocess.run([ctx.driver], stdin=f, stdout=subprocess.PIPE, stderr=subprocess.PIPE, text=True, timeout=1800)
    impl = open(os.path.join(d, "astdiff.impl")).read().splitlines()
    model = m.stdout.splitlines()
    if len(impl) != len(model) or not impl:
        ctx.broken("driver", f"astdiff stream: impl {len(impl)} model {len(model)} {m.stderr[-300:]}")
        return
    byid = {cid: (patches, src) for cid, patches, src in jobs}
    bad = 0
    for a, b in zip(impl, model):
        ctx.evaluations += 1
        ctx.count("astdiff_steps")
        sa, sb_ = parse_sx(a), parse_sx(b)
        ia = [(int(x[0]), int(x[1])) for x in (sx_field(sa[2:], "changed") or [])]
        ib = [(int(x[0]), int(x[1])) for x in (sx_field(sb_[2:], "changed") or [])]
        if sa[1].rsplit(".", 1)[-1] != "0":
            ctx.count("astdiff_later_steps")
        if ia:
            ctx.count("astdiff_steps_reporting")
        snap = sx_field(sb_[2:], "snap") or ["?"]
        if sx_field(sb_[2:], "modeltrouble"):
            ctx.count("astdiff_model_trouble")
        # the theorems about lists of nodes (untouched_neighbours_left_alone) have a hypothesis on the old snapshot:
        # evaluated here on the declarations of every real snapshot
        sl, tw = sx_field(sb_[2:], "samelen"), sx_field(sb_[2:], "twins")
        if sl is not None and tw is not None:
            # the hypotheses of untouched_elements_paired_with_themselves on the declarations of this step
            ctx.count("astdiff_decls_in_place_without_twins" if (sl[0] == "1" and tw[0] == "0") else "astdiff_decls_length_changed_or_twins")
        npr = sx_field(sb_[2:], "noposregions")
        if npr is not None and npr[0] != "0":
            ctx.count("astdiff_steps_with_a_region_starting_at_NoPos")
        sf = sx_field(sb_[2:], "sepfail")
        if sf is not None:
            ctx.count("astdiff_separation_holds" if sf[0] == "0" else "astdiff_separation_fails")
        # a declaration in which the engine model rewrote nothing must be paired with itself by the list alignment
        cid0 = sa[1].rsplit(".", 1)[0]
        for x in (sx_field(sb_[2:], "nonid") or []):
            lo, hi = int(x[0]), int(x[1])
            for a, b_ in (untouched or {}).get(cid0, []):
                if lo < b_ and a < hi and lo < hi:
                    patches, src = byid.get(cid0, ([""], ""))
                    ctx.violation(f"the declaration at [{a}, {b_}), in which nothing was rewritten, is not paired with itself when the old and the "
                                  f"new list of declarations are aligned (step {sa[1]}): it is reported as changed or deleted, its comments are at the "
                                  "mercy of the comment filter",
                                  {"input": {"patches": patches, "src": src}, "declaration": [a, b_], "not_identical": [lo, hi],
                                   "reproduce": "gopatch -p p0.patch --print-only a.go"})
        cm = sx_field(sb_[2:], "cmsmissing")
        if cm is not None:
            ctx.count("astdiff_first_snapshots")
            if cm[0] != "0":
                bad += 1
                patches, src = byid.get(cid0, ([""], ""))
                ctx.broken("correspondence", f"astdiff.Before: {cm[0]} comment group(s) of the file are associated with no value of the first "
                                             f"snapshot (go/ast's comment map hands every group to some node); file {src[:300]!r}")
        if union_of(ia) != union_of(ib) or snap[0] != "ok" or sa[1] != sb_[1]:
            bad += 1
            if bad <= 3:
                patches, src = byid.get(sa[1].rsplit(".", 1)[0], ([""], ""))
                what = (f"changed regions: implementation {union_of(ia)}, model {union_of(ib)}" if union_of(ia) != union_of(ib)
                        else f"comment associations of the new snapshot differ at value {snap[1:]}")
                ctx.broken("correspondence", f"astdiff step {sa[1]}: {what}; patches {patches!r}; file {src[:400]!r}")
    ctx.extra["astdiff_disagreements"] = bad
    # the changelog of every step: regions reported (plus), recorded as unchanged by the replacer (minus), what
    # ChangedIntervals returned (out) - against the set semantics of the model, with the untouched extents of the engine model
    lines = []
    for l in open(os.path.join(d, "changelog.cases")).read().splitlines():
        cid0 = parse_sx(l)[1].rsplit(".", 1)[0]
        unt = "".join(f" ({a} {b_})" for a, b_ in (untouched or {}).get(cid0, []))
        lines.append(l[:-1] + f" (untouched{unt}))")
    if lines:
        m2 = subprocess.run([ctx.driver], input="\n".join(lines) + "\n", stdout=subprocess.PIPE, stderr=subprocess.PIPE, text=True, timeout=1800)
        outl = m2.stdout.splitlines()
        if len(outl) != len(lines):
            ctx.broken("driver", f"changelog stream: cases {len(lines)} model {len(outl)} {m2.stderr[-300:]}")
            return
        cbad = 0
        for cl_, ml in zip(lines, outl):
            ctx.evaluations += 1
            sc_, sm = parse_sx(cl_), parse_sx(ml)
            out = sx_field(sc_[3:], "out") or []
            mod = sx_field(sm[2:], "model") or []
            snd = (sx_field(sm[2:], "sound") or ["?"])[0]
            ctx.count("changelog_steps")
            ctx.count("changelog_strongclear:" + (sx_field(sm[2:], "strongclear") or ["?"])[0])
            if (sx_field(sm[2:], "respects") or ["1"])[0] != "1":
                ctx.count("changelog_respects_fails")     # reported in full by the interval tie above
            hc_ = sx_field(sm[2:], "hdrclear")
            if hc_ is not None:
                # header_comments_survive_the_filter: every interval starts at NoPos or after the package keyword
                ctx.count("changelog_header_hypothesis_" + ("holds" if hc_[0] == "1" else "fails"))
                if hc_[0] != "1":
                    patches, src = byid.get(sc_[1].rsplit(".", 1)[0], ([""], ""))
                    ctx.violation(f"a changed interval of step {sc_[1]} starts inside the header of the file (after NoPos, before the package "
                                  f"keyword): {out}; comments above the package clause are at the mercy of the comment filter",
                                  {"input": {"patches": patches, "src": src}, "intervals": out, "reproduce": "gopatch -p p0.patch ... --print-only a.go"})
            if out != mod or snd != "1":
                cbad += 1
                if cbad <= 3:
                    patches, src = byid.get(sc_[1].rsplit(".", 1)[0], ([""], ""))
                    ctx.broken("correspondence", f"changelog of step {sc_[1]}: ChangedIntervals returned {out}, the set 'changed minus unchanged' is {mod} "
                                                 f"(sound={snd}); plus {sx_field(sc_[3:], 'plus')}, minus {sx_field(sc_[3:], 'minus')}; patches {patches!r}")
        ctx.extra["changelog_disagreements"] = cbad

def c17_intervals_tie(ctx, jobs, touched):
    """Lean filterComments on the changed intervals of the real engine vs the comments of the real output; and the
    invariant astdiff owes the filter: no changed interval reaches into a declaration in which nothing was rewritten"""
    d = ctx.scratch("iv")
    pth = os.path.join(d, "in.jsonl")
    with open(pth, "w") as f:
        for cid, patches, src in jobs:
            if len(patches) == 1:
                f.write(json.dumps({"id": cid, "patches": patches, "src": src}) + "\n")
    r = run([ctx.harness, "intervals", "-inputs", pth, "-out", d], timeout=240 if ctx.tier == "quick" else 1800)
    if r.returncode != 0:
        ctx.broken("harness", "zzverif intervals failed: " + r.stderr[-1500:])
        return
    # append the extents of the untouched declarations (engine model) to every case
    lines = []
    untouched_extents = ctx.extra.setdefault("_untouched_extents", {})
    for l in open(os.path.join(d, "intervals.cases")).read().splitlines():
        sx = parse_sx(l)
        cid = sx[1]
        decls = [(int(x[0]), int(x[1]), x[2] == "1") for x in (sx_field(sx[3:], "decls") or [])]
        nonimp = [(a, b) for a, b, imp in decls if not imp]
        unt = ""
        if cid in touched:
            untouched_extents[cid] = [(a, b) for j, (a, b) in enumerate(nonimp) if j not in touched[cid]]
            unt = " (untouched" + "".join(f" ({a} {b})" for a, b in untouched_extents[cid]) + ")"
        lines.append(l[:-1] + unt + ")")
    m = subprocess.run([ctx.driver], input="\n".join(lines) + "\n", stdout=subprocess.PIPE, stderr=subprocess.PIPE, text=True, timeout=1800)
    impl = open(os.path.join(d, "intervals.impl")).read().splitlines()
    model = m.stdout.splitlines()
    byid = {cid: (patches, src) for cid, patches, src in jobs}
    if len(impl) != len(model):
        ctx.broken("driver", f"intervals stream: impl {len(impl)} model {len(model)}")
        return
    for a, b in zip(impl, model):
        ctx.evaluations += 1
        ctx.count("intervals_cases")
        sa, sb_ = parse_sx(a), parse_sx(b)
        patches, src = byid.get(sa[1], ([""], ""))
        resp = sx_field(sb_[2:], "respects") or ["1"]
        ctx.count("respects:" + resp[0])
        if resp[0] == "0":
            payload = {"input": {"patches": patches, "src": src}, "interval": resp[1:3], "declaration": resp[3:5],
                       "problems": ["syntactically unchanged but its comments changed (interval invariant)"],
                       "reproduce": "gopatch -p p0.patch --print-only a.go"}
            # F18 (import declarations merged, list diff pairs declarations wrongly): the same case with its imports
            # grouped beforehand respects the invariant, and one import-adding change alone already breaks it
            if any("+import" in p for p in patches):
                g = group_imports(src)
                if g and g != src and c17_respects_single(ctx, patches, g) is True:
                    singles = [ch for p in patches for ch in split_changes(p)]
                    if len(singles) <= 1 or any("+import" in ch and c17_respects_single(ctx, [ch], src) is False for ch in singles):
                        payload["import_merge_only"] = True
            ctx.violation(f"a changed interval [{resp[1]}, {resp[2]}) reaches into the declaration at [{resp[3]}, {resp[4]}) in which nothing was "
                          f"rewritten: every comment there is at the mercy of the comment filter (file positions incl. the patch file's base)",
                          payload)
        got = [cl.sx_unquote(x) for x in (sx_field(sa[2:], "survivors") or [])]
        want = [cl.sx_unquote(x) for x in (sx_field(sb_[2:], "survivors") or [])]
        if got != want:
            lost = sorted(set(want) - set(got))
            extra = [x for x in got if got.count(x) > want.count(x)]
            if extra:
                ctx.violation(f"the output contains comments that the comment filter should have removed or that are duplicated: {extra[:3]}",
                              {"input": {"patches": patches, "src": src}})
            elif lost:
                ctx.count("printer_dropped_comment")
                ctx.extra.setdefault("printer_dropped_examples", [])
                if len(ctx.extra["printer_dropped_examples"]) < 3:
                    ctx.extra["printer_dropped_examples"].append({"lost": lost[:3], "patch": patches[0][:200]})
