"""Per-property checks. Each handler receives a Ctx, runs its correspondence
stream(s) and property projection, and records what it explored."""
import json, os, re, shutil, subprocess, sys, time, hashlib, glob
from concurrent.futures import ThreadPoolExecutor
import common
from common import VERIF, REPO, BUILD, run, parse_sx, sx_field, tree_diff, subtree, covered

TRUSTED = [
    "Lean 4.33.0 kernel (lake build; #print axioms restricted to propext, Classical.choice, Quot.sound)",
    "hand-written Lean model /verif/lean/GopatchModel (tied to /repo by the differential correspondence run by this check)",
    "Go harness /verif/harness/zzverif (dumper, generators, canonicalisation) and /verif/lib (comparison, projections)",
    "go/parser, go/printer, go/scanner, x/tools imports+astutil, pkg/diff, the OS: not modelled (see DESIGN.md section 8)",
]

class Ctx:
    def __init__(self, pid, tier, seed, replay, t0):
        self.pid, self.tier, self.seed, self.replay, self.t0 = pid, tier, seed, replay, t0
        self.evaluations = 0
        self.nontrivial = set()
        self.samples = []
        self.dist = {}
        self.violations = []      # (what, payload)
        self.broken_ties = []     # (kind, detail)
        self.known_hits = []
        self.obligations = 0
        self.discharged = 0
        self.theorems = []
        self.rule = ""
        self.assumptions = []
        self.extra = {}
        self.level = "proof"
        self.known = [k for k in common.load_known() if k.get("property") == pid]
        self.scratch_dirs = []

    # -- preparation --------------------------------------------------------
    def prepare(self):
        self.gopatch, self.harness = common.build_go()
        self.driver = common.build_lean()
        ob, di, details, problems = common.audit_proofs(self.pid)
        self.obligations, self.discharged, self.theorems = ob, di, details
        for p in problems:
            self.broken("proof", p)

    def scratch(self, name="s"):
        d = common.scratch(self.pid + "-" + name)
        self.scratch_dirs.append(d)
        return d

    # -- recording ----------------------------------------------------------
    def count(self, key, n=1):
        self.dist[key] = self.dist.get(key, 0) + n

    def sample(self, s, limit=4):
        if len(self.samples) < limit:
            self.samples.append(s)

    def violation(self, what, payload):
        self.violations.append((what, payload))

    def broken(self, kind, detail):
        self.broken_ties.append((kind, detail))

    def is_known(self, what, payload):
        for k in self.known:
            if k.get("status") != "known":
                continue
            sig = k.get("signature", {})
            fn = SIGNATURES.get(sig.get("kind"))
            if fn and fn(sig, what, payload):
                return k
        return None

    # -- verdict --------------------------------------------------------------
    def finish(self):
        for d in self.scratch_dirs:
            shutil.rmtree(d, ignore_errors=True)
        lines = []
        nviol = 0
        seen_known = set()
        for what, payload in self.violations:
            k = self.is_known(what, payload)
            if k is not None:
                if k["id"] not in seen_known:
                    seen_known.add(k["id"])
                    lines.append(f"KNOWN-FINDING: property={self.pid} {k['what']}")
                continue
            nviol += 1
            if nviol <= 5:
                path = common.write_replay(self.pid, {"property": self.pid, "what": what, **payload})
                lines.append(f"VIOLATION property={self.pid} replay={path}")
        if nviol == 0 and self.broken_ties:
            path = common.write_replay(self.pid, {
                "property": self.pid,
                "what": "the property is no longer shown to hold: a proof obligation or the correspondence does not check",
                "broken": [{"kind": k, "detail": d[-6000:]} for k, d in self.broken_ties],
                "searched": {"evaluations": self.evaluations, "tier": self.tier},
            })
            lines.append(f"VIOLATION property={self.pid} replay={path} no-failing-input-found")
            nviol = 1
        # listed known findings that were replayed explicitly but not hit are not printed
        cov = {
            "obligations": self.obligations, "discharged": self.discharged,
            "checker_cmd": f"cd /verif/lean && lake build GopatchModel.Props.{self.pid} && lake env lean <audit: #print axioms of every theorem>",
            "trusted_base": TRUSTED,
            "theorems": self.theorems,
            "evaluations": self.evaluations,
            "distinct_nontrivial": len(self.nontrivial),
            "rule": self.rule,
            "samples": self.samples or ["(no case was run)"],
            "distribution": self.dist,
            "known_findings_replayed": sorted(seen_known),
        }
        cov.update(self.extra)
        level = self.level
        if level == "proof" and (self.obligations == 0 or self.discharged != self.obligations):
            cov["explanation"] = "proof obligations not all discharged on this run; see violations"
        common.write_evidence(self.pid, self.tier, self.seed, level, cov, self.assumptions,
                              time.time() - self.t0, nviol)
        for l in lines:
            print(l)
        print(f"{self.pid}: {'FAIL' if nviol else 'ok'} tier={self.tier} seed={self.seed} "
              f"evaluations={self.evaluations} nontrivial={len(self.nontrivial)} "
              f"theorems={self.discharged}/{self.obligations} wall={time.time()-self.t0:.1f}s")
        return 1 if nviol else 0

SIGNATURES = {}
def signature(name):
    def deco(f):
        SIGNATURES[name] = f
        return f
    return deco

REGISTRY = {}
def prop(pid):
    def deco(f):
        REGISTRY[pid] = f
        return f
    return deco

# ---------------------------------------------------------------------------
# engine stream

ERR_RE = re.compile(r'\((err|panic) "(?:[^"\\]|\\.)*"\)')

def parse_res(line):
    """(res ID (trace ...) (ok) (pkg ..) (imports ..) (tree ..)) -> dict"""
    sx = parse_sx(ERR_RE.sub(r"(\1)", line))
    d = {"id": sx[1], "trace": sx_field(sx[2:], "trace") or [], "status": "ok"}
    if sx_field(sx[2:], "err") is not None:
        d["status"] = "err"
    elif sx_field(sx[2:], "panic") is not None:
        d["status"] = "panic"
    else:
        d["pkg"] = sx_field(sx[2:], "pkg")
        d["imports"] = sx_field(sx[2:], "imports")
        t = sx_field(sx[2:], "tree")
        d["tree"] = t[0] if t else None
    return d

def parse_orig(line):
    sx = parse_sx(line)
    t = sx_field(sx[2:], "tree")
    return {"id": sx[1], "pkg": sx_field(sx[2:], "pkg"), "imports": sx_field(sx[2:], "imports"),
            "tree": t[0] if t else None}

def run_engine_batch(ctx, args, tag):
    """Run the harness `engine` command and the model driver; return list of
    (input, orig, impl, model) per case that could be expressed."""
    d = ctx.scratch(tag)
    r = run([ctx.harness, "engine", "-repo", REPO, "-out", d] + args, timeout=3600)
    if r.returncode != 0:
        ctx.broken("harness", f"zzverif engine {args} failed: {r.stderr[-2000:]}")
        return []
    try:
        stats = json.loads(r.stdout.strip().splitlines()[-1])
    except Exception:
        stats = {}
    for k, v in stats.items():
        ctx.count("harness." + k, v)
    with open(os.path.join(d, "engine.cases")) as fin, open(os.path.join(d, "engine.model"), "w") as fout:
        r = subprocess.run([ctx.driver], stdin=fin, stdout=fout, stderr=subprocess.PIPE, text=True, timeout=3600)
    if r.returncode != 0:
        ctx.broken("driver", f"modeldriver failed: {r.stderr[-2000:]}")
        return []
    inputs = {}
    for l in open(os.path.join(d, "engine.inputs.jsonl")):
        c = json.loads(l)
        inputs[c["id"]] = c
    impl = open(os.path.join(d, "engine.impl")).read().splitlines()
    model = open(os.path.join(d, "engine.model")).read().splitlines()
    orig = open(os.path.join(d, "engine.orig")).read().splitlines()
    if not (len(impl) == len(model) == len(orig)):
        ctx.broken("driver", f"line count mismatch impl={len(impl)} model={len(model)} orig={len(orig)}")
        return []
    out = []
    for a, b, o in zip(impl, model, orig):
        ia, ib, io = parse_res(a), parse_res(b), parse_orig(o)
        out.append((inputs.get(ia["id"], {"id": ia["id"]}), io, ia, ib,
                    ERR_RE.sub(r"(\1)", a) == ERR_RE.sub(r"(\1)", b)))
    shutil.rmtree(d, ignore_errors=True)
    return out

def engine_batches(ctx, mode, n_quick, n_thorough, golden=True):
    """Corpus first, then golden + generated cases (several seeds in parallel)."""
    results = []
    corpus = sorted(glob.glob(os.path.join(VERIF, "corpus", ctx.pid, "*.jsonl")))
    if ctx.replay:
        payload = json.load(open(ctx.replay))
        p = os.path.join(ctx.scratch("replay"), "replay.jsonl")
        with open(p, "w") as f:
            f.write(json.dumps(payload.get("input", payload)) + "\n")
        return run_engine_batch(ctx, ["-inputs", p], "rp")
    for c in corpus:
        results += run_engine_batch(ctx, ["-inputs", c], "corpus")
    total = n_quick if ctx.tier == "quick" else n_thorough
    chunks = 1 if ctx.tier == "quick" else 16
    per = max(1, total // chunks)
    jobs = []
    for i in range(chunks):
        args = ["-mode", mode, "-seed", str(ctx.seed * 1000 + i), "-n", str(per), f"-golden={'true' if (golden and i == 0) else 'false'}"]
        jobs.append(args)
    with ThreadPoolExecutor(max_workers=16) as ex:
        for res in ex.map(lambda a: run_engine_batch(ctx, a, "gen"), jobs):
            results += res
    return results

def changed_paths(orig, res):
    if res["status"] != "ok" or res.get("tree") is None:
        return None
    return sorted(set(tree_diff(orig["tree"], res["tree"])))

def replay_payload(inp, impl, model, extra=None):
    p = {"input": {"id": inp.get("id"), "patches": inp.get("patches"), "src": inp.get("src")},
         "impl": {"status": impl["status"], "trace": impl["trace"]},
         "model": {"status": model["status"], "trace": model["trace"]},
         "reproduce": "write patches[i] to p<i>.patch and src to a.go; gopatch -p p0.patch ... --print-only a.go; "
                      "or ./check <id> --replay <this file>"}
    if extra:
        p.update(extra)
    return p

def fmt_paths(ps):
    return [".".join(map(str, p)) for p in ps] if ps is not None else None

def engine_projection(ctx, results, what_checks):
    """Evaluate the requested projections on every case.
    what_checks: subset of {"status","where","content","outside","imports","full"}"""
    for inp, orig, impl, model, same in results:
        ctx.evaluations += 1
        tr = " ".join(impl["trace"])
        ctx.count("trace:" + re.sub(r"\d+", "#", tr))
        ctx.count("status:" + impl["status"])
        if any(t.startswith("k") for t in impl["trace"]):
            ctx.nontrivial.add(hashlib.sha1((json.dumps(inp.get("patches")) + str(inp.get("src"))).encode()).hexdigest())
        if len(ctx.samples) < 3 and inp.get("patches") and any(t.startswith("k") for t in impl["trace"]):
            ctx.sample({"id": inp["id"], "patch": inp["patches"][0][:600], "src": (inp.get("src") or "")[:600],
                        "trace": tr})
        if same:
            continue
        ctx.count("model_impl_differ")
        ci, cm = changed_paths(orig, impl), changed_paths(orig, model)
        probs = []
        if "status" in what_checks:
            if impl["status"] != model["status"]:
                probs.append(f"outcome differs: implementation {impl['status']}, specification {model['status']}")
        if "decisions" in what_checks:
            di = [t[0] for t in impl["trace"]]
            dm = [t[0] for t in model["trace"]]
            if di != dm:
                probs.append(f"per-change match decisions differ: implementation {di}, specification {dm}")
        if "where" in what_checks and ci is not None and cm is not None:
            if ci != cm:
                probs.append(f"rewritten locations differ: implementation {fmt_paths(ci)}, specification {fmt_paths(cm)}")
        if "where" in what_checks and (ci is None) != (cm is None):
            probs.append(f"outcome differs: implementation {impl['status']}, specification {model['status']}")
        if "content" in what_checks and ci is not None and cm is not None:
            for p in cm:
                if p in ci and subtree(impl["tree"], p) != subtree(model["tree"], p):
                    probs.append(f"replacement at {'.'.join(map(str,p))} differs from the instantiated '+' pattern")
                    break
        if "outside" in what_checks and ci is not None and cm is not None:
            extra = [p for p in ci if not covered(p, cm)]
            if extra:
                probs.append(f"code outside the rewritten fragments changed at {fmt_paths(extra)}")
            if impl.get("pkg") != model.get("pkg"):
                probs.append(f"package clause differs: {impl.get('pkg')} vs {model.get('pkg')}")
        if "imports" in what_checks and impl["status"] == "ok" and model["status"] == "ok":
            if impl.get("imports") != model.get("imports"):
                probs.append(f"imports differ: implementation {impl.get('imports')}, specification {model.get('imports')}")
        if "full" in what_checks:
            probs.append("canonical result differs from the model's")
        if probs:
            ctx.violation("; ".join(probs), replay_payload(inp, impl, model, {"problems": probs}))

ENGINE_RULE = ("cases = every (patch, input) pair of /repo/testdata plus generated pairs: a random Go fragment "
               "(expression / statement run / func / type-var-const declaration) is abstracted into a pattern by replacing "
               "sub-expressions and identifiers with metavariables and list runs with '...'; the '+' side is derived by "
               "rename/wrap/swap/duplicate/drop; the target file embeds instances with fresh fillers, single-token near-misses "
               "and inconsistent fillers at several syntactic positions; every choice from VERIF_SEED. Both the real engine "
               "(parse.Parse, engine.Compile, Change.Match/Replace in-process) and the Lean model (modeldriver) run on the same "
               "dumped trees; results are compared as canonical trees. A case is non-trivial when at least one change matched; "
               "distinct = distinct (patch, source) text.")

def engine_family(ctx, mode, checks, n_quick=400, n_thorough=16000, golden=True):
    ctx.rule = ENGINE_RULE + f" Generator mode: {mode}. Projection compared for this property: {sorted(checks)}."
    res = engine_batches(ctx, mode, n_quick, n_thorough, golden)
    engine_projection(ctx, res, checks)
    return res

@prop("C01")
def c01(ctx):
    engine_family(ctx, "c01", {"status", "where"})

@prop("C02")
def c02(ctx):
    engine_family(ctx, "c02", {"decisions", "where"})

@prop("C03")
def c03(ctx):
    engine_family(ctx, "c03", {"status", "content"})

@prop("C04")
def c04(ctx):
    engine_family(ctx, "c04", {"status", "where", "content"})

@prop("C05")
def c05(ctx):
    engine_family(ctx, "c05", {"outside"})
