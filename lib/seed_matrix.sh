#!/bin/sh
# usage: lib/seed_matrix.sh [tier] [seed-dir...]   -- for each seeded change: scratch worktree of /repo + patch.diff,
# run the check of its property against that tree (VERIF_REPO), print one line, remove the worktree.
cd "$(dirname "$0")/.." || exit 2
TIER="${1:-quick}"; [ $# -gt 0 ] && shift
[ $# -eq 0 ] && set -- $(ls -d seeded/C* | sort)
for D in "$@"; do
  N=$(basename "$D")
  P=$(python3 -c "import json;print(json.load(open('$D/meta.json'))['property'])")
  if python3 -c "import json,sys;sys.exit(0 if json.load(open('$D/meta.json')).get('obsolete') else 1)"; then
    echo "$N ($P): obsolete (its demonstration passes on the repaired tree; see meta.json)"; continue
  fi
  WT=/var/tmp/seedwt-$N-$$
  git -C /repo worktree add --detach -q "$WT" HEAD 2>/dev/null || { echo "$N: worktree failed"; continue; }
  if git -C "$WT" apply "$PWD/$D/patch.diff" 2>/dev/null; then
    OUT=$(VERIF_REPO="$WT" ./check "$P" --tier "$TIER" 2>&1)
    V=$(echo "$OUT" | grep -c '^VIOLATION')
    echo "$N ($P): violations=$V $(echo "$OUT" | tail -1 | cut -c1-150)"
  else
    echo "$N ($P): patch does not apply"
  fi
  ALT=".build/alt-$(python3 -c "import hashlib,os;print(hashlib.sha256(os.path.realpath('$WT').encode()).hexdigest()[:10])")"
  git -C /repo worktree remove --force "$WT"
  rm -rf "$ALT"
done
